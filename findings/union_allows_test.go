package spec

import (
	"encoding/json"
	"testing"

	"github.com/go-openapi/jsonpointer"
)

// Witness of known finding C15 "allows": a schema under additionalProperties (or additionalItems) with an unknown keyword
// named "allows" answers the pointer .../allows with the Go field SchemaOrBool.Allows instead of the member's value.
func TestVerifWitnessUnionAllowsMember(t *testing.T) {
	var s Schema
	if err := json.Unmarshal([]byte(`{"additionalProperties":{"allows":5,"type":"string"}}`), &s); err != nil {
		t.Fatal(err)
	}
	b, _ := json.Marshal(s)
	var g interface{}
	_ = json.Unmarshal(b, &g)
	p, _ := jsonpointer.New("/additionalProperties/allows")
	tv, _, terr := p.Get(s)
	gv, _, gerr := p.Get(g)
	tb, _ := json.Marshal(tv)
	gb, _ := json.Marshal(gv)
	if (terr == nil) != (gerr == nil) || string(tb) != string(gb) {
		t.Fatalf("typed lookup gives %s (%v), the JSON form has %s (%v)", tb, terr, gb, gerr)
	}
}
