package spec

import "testing"

// Witness of known finding C02/C03/C09 "rebase below-document": the root document's URL is a path
// prefix (at a segment boundary) of the referenced document's URL.  The kept $ref, read back from the
// root's location, designates another document.  (The behaviour is pinned by
// TestNormalizer_Denormalize/https://example.com/schema/other-file.json#/definitions/X.)
func TestVerifWitnessRebaseBelowDocument(t *testing.T) {
	c := "http://h/api/x.json#/definitions/n"
	base := "http://h/api"
	ref := MustCreateRef(c)
	d := denormalizeRef(&ref, base, "")
	back := normalizeURI(d.String(), base)
	if back != c {
		t.Fatalf("kept $ref %q reads back as %q, want %q", d.String(), back, c)
	}
}
