package spec

import (
	"encoding/json"
	"reflect"
	"testing"
)

// Witnesses of the known finding "required members whose value is empty are dropped by the round trip"
// (C01 lossless, C19 required-kept).  Each sub-test fails while the defect is present.
func verifRoundTripEqual(t *testing.T, in string, v interface{}) {
	t.Helper()
	if err := json.Unmarshal([]byte(in), v); err != nil {
		t.Fatal(err)
	}
	out, err := json.Marshal(v)
	if err != nil {
		t.Fatal(err)
	}
	var a, b interface{}
	_ = json.Unmarshal([]byte(in), &a)
	_ = json.Unmarshal(out, &b)
	if !reflect.DeepEqual(a, b) {
		t.Fatalf("round trip of %s gives %s", in, out)
	}
}

func TestVerifWitnessRequiredEmptyInfo(t *testing.T) {
	verifRoundTripEqual(t, `{"title":"","version":"1"}`, &Info{})
}

func TestVerifWitnessRequiredEmptyLicense(t *testing.T) {
	verifRoundTripEqual(t, `{"name":""}`, &License{})
}

func TestVerifWitnessRequiredEmptyTag(t *testing.T) {
	verifRoundTripEqual(t, `{"name":""}`, &Tag{})
}

func TestVerifWitnessRequiredEmptyHeader(t *testing.T) {
	verifRoundTripEqual(t, `{"type":""}`, &Header{})
}

func TestVerifWitnessRequiredEmptyParameter(t *testing.T) {
	verifRoundTripEqual(t, `{"name":"","in":"query","type":"string"}`, &Parameter{})
}

// Witness of the known finding "a status code written with leading zeros is renamed by the round trip":
// "040" is a valid key of a responses object (pattern ^([0-9]{3})$), it comes back as "40", which is not.
func TestVerifWitnessResponsesLeadingZero(t *testing.T) {
	verifRoundTripEqual(t, `{"040":{"description":"d"}}`, &Responses{})
}

func TestVerifWitnessRequiredEmptySecurityScheme(t *testing.T) {
	t.Run("apiKey", func(t *testing.T) {
		verifRoundTripEqual(t, `{"type":"apiKey","name":"","in":"header"}`, &SecurityScheme{})
	})
	t.Run("password", func(t *testing.T) {
		verifRoundTripEqual(t, `{"type":"oauth2","flow":"password","tokenUrl":""}`, &SecurityScheme{})
	})
	t.Run("application", func(t *testing.T) {
		verifRoundTripEqual(t, `{"type":"oauth2","flow":"application","tokenUrl":""}`, &SecurityScheme{})
	})
	t.Run("accessCode", func(t *testing.T) {
		verifRoundTripEqual(t, `{"type":"oauth2","flow":"accessCode","authorizationUrl":"http://a","tokenUrl":""}`, &SecurityScheme{})
	})
}

func TestVerifWitnessRequiredEmptySwagger(t *testing.T) {
	verifRoundTripEqual(t, `{"swagger":"","info":{"title":"t","version":"1"},"paths":{}}`, &Swagger{})
}

func TestVerifWitnessRequiredEmptyExternalDocs(t *testing.T) {
	verifRoundTripEqual(t, `{"url":""}`, &ExternalDocumentation{})
}
