package spec

import (
	"bytes"
	"encoding/gob"
	"encoding/json"
	"reflect"
	"testing"
)

// Witnesses of the known findings of C14 (gob transport): positions where encoding/gob alters a value in a way the
// JSON encoding shows.  Each sub-test fails while the loss is present.
func verifGobJSONEqual(t *testing.T, in string, src, dst interface{}) {
	t.Helper()
	if err := json.Unmarshal([]byte(in), src); err != nil {
		t.Fatal(err)
	}
	before, err := json.Marshal(src)
	if err != nil {
		t.Fatal(err)
	}
	var buf bytes.Buffer
	if err := gob.NewEncoder(&buf).Encode(src); err != nil {
		t.Fatal(err)
	}
	if err := gob.NewDecoder(&buf).Decode(dst); err != nil {
		t.Fatal(err)
	}
	after, err := json.Marshal(dst)
	if err != nil {
		t.Fatal(err)
	}
	var a, b interface{}
	_ = json.Unmarshal(before, &a)
	_ = json.Unmarshal(after, &b)
	if !reflect.DeepEqual(a, b) {
		t.Fatalf("gob transport changed %s into %s", before, after)
	}
}

func TestVerifWitnessGobLoss(t *testing.T) {
	schema := map[string]string{
		"SchemaProps.Minimum": `{"minimum":0}`, "SchemaProps.Maximum": `{"maximum":0}`, "SchemaProps.MultipleOf": `{"multipleOf":0}`,
		"SchemaProps.MinLength": `{"minLength":0}`, "SchemaProps.MaxLength": `{"maxLength":0}`, "SchemaProps.MinItems": `{"minItems":0}`,
		"SchemaProps.MaxItems": `{"maxItems":0}`, "SchemaProps.MinProperties": `{"minProperties":0}`, "SchemaProps.MaxProperties": `{"maxProperties":0}`,
		"SchemaProps.Default": `{"default":[]}`, "SchemaProps.Enum[]": `{"enum":[[]]}`, "SwaggerSchemaProps.Example": `{"example":[]}`,
		"Schema.ExtraProps[]": `{"unknownKeyword":[]}`, "VendorExtensible.Extensions[]": `{"x-list":[]}`,
	}
	for name, in := range schema {
		t.Run(name, func(t *testing.T) { verifGobJSONEqual(t, in, &Schema{}, &Schema{}) })
	}
	param := map[string]string{
		"CommonValidations.Minimum": `{"name":"p","in":"query","type":"number","minimum":0}`, "CommonValidations.Maximum": `{"name":"p","in":"query","type":"number","maximum":0}`,
		"CommonValidations.MultipleOf": `{"name":"p","in":"query","type":"number","multipleOf":0}`, "CommonValidations.MinLength": `{"name":"p","in":"query","type":"string","minLength":0}`,
		"CommonValidations.MaxLength": `{"name":"p","in":"query","type":"string","maxLength":0}`, "CommonValidations.MinItems": `{"name":"p","in":"query","type":"array","minItems":0}`,
		"CommonValidations.MaxItems": `{"name":"p","in":"query","type":"array","maxItems":0}`, "CommonValidations.Enum[]": `{"name":"p","in":"query","type":"array","enum":[[]]}`,
		"SimpleSchema.Default": `{"name":"p","in":"query","type":"array","default":[]}`, "SimpleSchema.Example": `{"name":"p","in":"query","type":"array","example":[]}`,
	}
	for name, in := range param {
		t.Run(name, func(t *testing.T) { verifGobJSONEqual(t, in, &Parameter{}, &Parameter{}) })
	}
	t.Run("ResponseProps.Examples[]", func(t *testing.T) {
		verifGobJSONEqual(t, `{"description":"d","examples":{"application/json":[]}}`, &Response{}, &Response{})
	})
}
