package spec

// Regression tests for two repaired defects of C02 (see known_findings.json, "fixed" entries 212c493 and 977ad96).
// They pass on the repaired tree; they are not part of any check's verdict (the obligations named in the fixed
// entries are), and are kept so that the failing inputs stay on record.

import (
	"encoding/json"
	"fmt"
	"strings"
	"testing"
)


func verifDocs(docs map[string]string) func(string) (json.RawMessage, error) {
	return func(p string) (json.RawMessage, error) {
		for k, v := range docs {
			if strings.HasSuffix(p, k) {
				return json.RawMessage(v), nil
			}
		}
		return nil, fmt.Errorf("no such document: %s", p)
	}
}

// D1: a parameter reached through two hops that change directory: the nested schema $ref is read relative to the root's folder
func TestVerifFixedChainedAcrossFolders(t *testing.T) {
	docs := map[string]string{
		"/base/root.json":     `{"swagger":"2.0","info":{"title":"t","version":"1"},"paths":{"/x":{"get":{"parameters":[{"$ref":"sub/p.json#/parameters/a"}],"responses":{"200":{"description":"ok"}}}}}}`,
		"/base/sub/p.json":    `{"parameters":{"a":{"$ref":"q.json#/parameters/b"}}}`,
		"/base/sub/q.json":    `{"parameters":{"b":{"name":"b","in":"body","schema":{"$ref":"defs.json#/definitions/X"}}}}`,
		"/base/sub/defs.json": `{"definitions":{"X":{"type":"string"}}}`,
	}
	var sw Swagger
	if err := json.Unmarshal([]byte(docs["/base/root.json"]), &sw); err != nil {
		t.Fatal(err)
	}
	err := ExpandSpec(&sw, &ExpandOptions{RelativeBase: "file:///base/root.json", PathLoader: verifDocs(docs)})
	if err != nil {
		t.Fatalf("ExpandSpec: %v", err)
	}
	p := sw.Paths.Paths["/x"].Get.Parameters[0]
	if p.Schema == nil || len(p.Schema.Type) != 1 || p.Schema.Type[0] != "string" {
		b, _ := json.Marshal(p)
		t.Fatalf("parameter not expanded to the designated schema: %s", b)
	}
}

// D2: the second hop is fragment-only: it designates a member of sub/p.json, but is looked up in the root document
func TestVerifFixedSecondHopFragmentOnly(t *testing.T) {
	docs := map[string]string{
		"/base/root.json":  `{"swagger":"2.0","info":{"title":"t","version":"1"},"parameters":{"b":{"name":"wrong","in":"query","type":"integer"}},"paths":{"/x":{"get":{"parameters":[{"$ref":"sub/p.json#/parameters/a"}],"responses":{"200":{"description":"ok"}}}}}}`,
		"/base/sub/p.json": `{"parameters":{"a":{"$ref":"#/parameters/b"},"b":{"name":"right","in":"query","type":"string"}}}`,
	}
	var sw Swagger
	if err := json.Unmarshal([]byte(docs["/base/root.json"]), &sw); err != nil {
		t.Fatal(err)
	}
	err := ExpandSpec(&sw, &ExpandOptions{RelativeBase: "file:///base/root.json", PathLoader: verifDocs(docs)})
	if err != nil {
		t.Fatalf("ExpandSpec: %v", err)
	}
	p := sw.Paths.Paths["/x"].Get.Parameters[0]
	if p.Name != "right" {
		b, _ := json.Marshal(p)
		t.Fatalf("second hop resolved in the wrong document: %s", b)
	}
}


// D3: a response in sub/paths.json references the circular schema defs.json#/definitions/Node twice
func TestVerifFixedKnownCircularUnderResponse(t *testing.T) {
	docs := map[string]string{
		"/base/root.json":      `{"swagger":"2.0","info":{"title":"t","version":"1"},"paths":{"/x":{"$ref":"sub/paths.json#/x"}}}`,
		"/base/sub/paths.json": `{"x":{"get":{"responses":{"200":{"description":"a","schema":{"$ref":"defs.json#/definitions/Node"}},"201":{"description":"b","schema":{"$ref":"defs.json#/definitions/Node"}}}}}}`,
		"/base/sub/defs.json":  `{"definitions":{"Node":{"type":"object","properties":{"next":{"$ref":"#/definitions/Node"}}}}}`,
	}
	var sw Swagger
	if err := json.Unmarshal([]byte(docs["/base/root.json"]), &sw); err != nil {
		t.Fatal(err)
	}
	err := ExpandSpec(&sw, &ExpandOptions{RelativeBase: "file:///base/root.json", PathLoader: verifDocs(docs)})
	if err != nil {
		t.Fatalf("ExpandSpec: %v", err)
	}
	b, _ := json.MarshalIndent(sw.Paths.Paths["/x"].Get.Responses, "", " ")
	for code, r := range sw.Paths.Paths["/x"].Get.Responses.StatusCodeResponses {
		if r.Schema == nil {
			t.Fatalf("%d: no schema: %s", code, b)
		}
		s := r.Schema
		if s.Ref.String() != "" {
			if s.Ref.String() != "sub/defs.json#/definitions/Node" {
				t.Fatalf("%d: kept ref %q does not designate the schema from the root's location\n%s", code, s.Ref.String(), b)
			}
			continue
		}
		n, ok := s.Properties["next"]
		if !ok || n.Ref.String() != "sub/defs.json#/definitions/Node" {
			t.Fatalf("%d: unexpected expansion: %s", code, b)
		}
	}
}


func TestVerifFixedLocalChainThenLocalSchema(t *testing.T) {
	docs := map[string]string{
		"/base/root.json":  `{"swagger":"2.0","info":{"title":"t","version":"1"},"definitions":{"X":{"type":"integer"}},"paths":{"/x":{"get":{"parameters":[{"$ref":"sub/p.json#/parameters/a"}],"responses":{"200":{"description":"ok"}}}}}}`,
		"/base/sub/p.json": `{"definitions":{"X":{"type":"string"}},"parameters":{"a":{"$ref":"#/parameters/b"},"b":{"name":"right","in":"body","schema":{"$ref":"#/definitions/X"}}}}`,
	}
	var sw Swagger
	if err := json.Unmarshal([]byte(docs["/base/root.json"]), &sw); err != nil {
		t.Fatal(err)
	}
	err := ExpandSpec(&sw, &ExpandOptions{RelativeBase: "file:///base/root.json", PathLoader: verifDocs(docs)})
	if err != nil {
		t.Fatalf("ExpandSpec: %v", err)
	}
	p := sw.Paths.Paths["/x"].Get.Parameters[0]
	b, _ := json.Marshal(p)
	if p.Name != "right" || p.Schema == nil || len(p.Schema.Type) != 1 || p.Schema.Type[0] != "string" {
		t.Fatalf("wrong: %s", b)
	}
}

// one hop only (no chain): local schema ref inside the target document
func TestVerifFixedOneHopThenLocalSchema(t *testing.T) {
	docs := map[string]string{
		"/base/root.json":  `{"swagger":"2.0","info":{"title":"t","version":"1"},"definitions":{"X":{"type":"integer"}},"paths":{"/x":{"get":{"parameters":[{"$ref":"sub/p.json#/parameters/b"}],"responses":{"200":{"description":"ok"}}}}}}`,
		"/base/sub/p.json": `{"definitions":{"X":{"type":"string"}},"parameters":{"b":{"name":"right","in":"body","schema":{"$ref":"#/definitions/X"}}}}`,
	}
	var sw Swagger
	if err := json.Unmarshal([]byte(docs["/base/root.json"]), &sw); err != nil {
		t.Fatal(err)
	}
	err := ExpandSpec(&sw, &ExpandOptions{RelativeBase: "file:///base/root.json", PathLoader: verifDocs(docs)})
	if err != nil {
		t.Fatalf("ExpandSpec: %v", err)
	}
	p := sw.Paths.Paths["/x"].Get.Parameters[0]
	b, _ := json.Marshal(p)
	if p.Name != "right" || p.Schema == nil || len(p.Schema.Type) != 1 || p.Schema.Type[0] != "string" {
		t.Fatalf("wrong: %s", b)
	}
}
