package spec

import (
	"encoding/json"
	"fmt"
	"strings"
	"testing"
)

// Regression test for the repaired defect of C08 (known_findings.json, "fixed" entry for expandSchemaRef): under
// ContinueOnError a schema $ref whose target is not an object was replaced by an empty schema instead of staying in place.
func TestVerifFixedIllTypedTargetUnderContinue(t *testing.T) {
	for _, bad := range []string{`"a string"`, `12`, `true`, `[1]`} {
		docs := map[string]string{"/base/ext.json": `{"definitions":{"bad":` + bad + `}}`}
		loader := func(p string) (json.RawMessage, error) {
			for k, v := range docs {
				if strings.HasSuffix(p, k) {
					return json.RawMessage(v), nil
				}
			}
			return nil, fmt.Errorf("no such document: %s", p)
		}
		s := Schema{}
		_ = json.Unmarshal([]byte(`{"properties":{"p":{"$ref":"ext.json#/definitions/bad"}}}`), &s)
		err := ExpandSchemaWithBasePath(&s, nil, &ExpandOptions{RelativeBase: "file:///base/root.json", PathLoader: loader, ContinueOnError: true})
		b, _ := json.Marshal(s)
		if err != nil {
			t.Errorf("%s: continue-on-error returned %v", bad, err)
		}
		if p := s.Properties["p"]; p.Ref.String() != "ext.json#/definitions/bad" {
			t.Errorf("%s: unresolvable $ref not left verbatim: %s", bad, b)
		}
	}
}
