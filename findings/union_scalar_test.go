package spec

import (
	"encoding/json"
	"testing"
)

// Witness of known finding C07 "scalar items": SchemaOrArray.UnmarshalJSON accepts a text that is neither an object nor an
// array and leaves the zero value, which encodes as null; inside a schema the member then disappears on the next
// decode+encode, so the first encoding is not a fixed point.
func TestVerifWitnessScalarItemsNotFixedPoint(t *testing.T) {
	var s Schema
	if err := json.Unmarshal([]byte(`{"items":12}`), &s); err != nil {
		return // rejecting the input would repair the defect
	}
	y, err := json.Marshal(s)
	if err != nil {
		t.Fatal(err)
	}
	var s2 Schema
	if err := json.Unmarshal(y, &s2); err != nil {
		t.Fatal(err)
	}
	z, err := json.Marshal(s2)
	if err != nil {
		t.Fatal(err)
	}
	if string(y) != string(z) {
		t.Fatalf("encoding %s of the decoded value is not a fixed point: decode+encode gives %s", y, z)
	}
}
