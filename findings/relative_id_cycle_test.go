package spec

import (
	"encoding/json"
	"log"
	"testing"
)

// Witness of known finding C04 "relative id cycle": a definition that carries a relative directory id and refers to
// itself. Every turn of the cycle reads the id relative to the previous turn's base (…/sub/, …/sub/sub/, …), so the
// canonical form of the $ref is new each time, the cycle cut never fires and ExpandSpec does not terminate.
// The runaway is stopped through the package's debug trace (setSchemaID logs every id scope it enters): the trace writer
// panics after 2000 lines, so the test fails instead of overflowing the stack.

type verifCountingWriter struct{ n int }

func (w *verifCountingWriter) Write(p []byte) (int, error) {
	w.n++
	if w.n > 2000 {
		panic("expansion does not terminate: more than 2000 trace lines on a one-schema reference graph")
	}
	return len(p), nil
}

func TestVerifWitnessRelativeIDCycle(t *testing.T) {
	root := `{"swagger":"2.0","info":{"title":"t","version":"1"},"paths":{},"definitions":{"a":{"id":"sub/","properties":{"n":{"$ref":"#/definitions/a"}}}}}`
	var sw Swagger
	if err := json.Unmarshal([]byte(root), &sw); err != nil {
		t.Fatal(err)
	}
	oldDebug, oldLogger := Debug, specLogger
	Debug, specLogger = true, log.New(&verifCountingWriter{}, "", 0)
	defer func() {
		Debug, specLogger = oldDebug, oldLogger
		if r := recover(); r != nil {
			t.Fatalf("%v", r)
		}
	}()
	// an error or a result are both fine: the property is that the call returns
	_ = ExpandSpec(&sw, &ExpandOptions{RelativeBase: "file:///r/root.json"})
}
