package spec

import (
	"encoding/json"
	"testing"
)

// Witness of known finding C19/C02 "path item $ref with siblings": a path item that carries a $ref next to members of its
// own (valid Swagger 2.0) is not replaced by its target: resolveRef decodes the target into the existing value, and
// encoding/json merges - the elements of the sibling parameters list are reused, so the target's path parameter comes
// out carrying the sibling query parameter's collectionFormat / allowEmptyValue: no parameter sub-schema accepts it.
func TestVerifWitnessPathItemRefWithSiblings(t *testing.T) {
	doc := `{"swagger":"2.0","info":{"title":"t","version":"1"},
 "x-shared":{"item":{"parameters":[{"name":"id","in":"path","required":true,"type":"string"}],"get":{"responses":{"200":{"description":"ok"}}}}},
 "paths":{"/a/{id}":{"$ref":"#/x-shared/item","parameters":[{"name":"q","in":"query","type":"array","items":{"type":"string"},"collectionFormat":"multi","allowEmptyValue":true}]}}}`
	var sw Swagger
	if err := json.Unmarshal([]byte(doc), &sw); err != nil {
		t.Fatal(err)
	}
	if err := ExpandSpec(&sw, &ExpandOptions{RelativeBase: "file:///r/root.json"}); err != nil {
		t.Fatal(err)
	}
	p := sw.Paths.Paths["/a/{id}"].Parameters
	b, _ := json.Marshal(p)
	for _, q := range p {
		if q.In == "path" && (q.CollectionFormat == "multi" || q.AllowEmptyValue) {
			t.Fatalf("the target's path parameter was merged with the sibling query parameter: %s", b)
		}
	}
}
