#!/bin/bash
# seedtest.sh <patch> <command...>: apply a patch to /repo, run the command, revert the patch (never touches other changes)
P="$1"; shift
git -C /repo apply -C1 "$P" || { echo "PATCH DOES NOT APPLY: $P"; exit 3; }
"$@"; rc=$?
git -C /repo apply -R -C1 "$P" || echo "WARNING: could not revert $P"
exit $rc
