#!/bin/bash
# debug helper: verify every function that has a contract, print the ones with undischarged obligations
grep "^//@ func " /repo/verif_contracts.go | sed 's|//@ func ||' | while read -r f; do
  out=$(timeout 600 /verif/bin/govc -fn "$f" 2>&1 | grep -v "^  proved" | grep -v "  clause:" | grep -v "^  warning")
  if [ -n "$out" ]; then echo "== $f"; echo "$out" | head -${2:-6}; fi
done
