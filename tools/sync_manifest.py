#!/opt/veriftools/pyvenv/bin/python3
# refresh MANIFEST.hooks.source_commits from /repo's history of the guarded files and validate MANIFEST.json
import json, subprocess, sys
try:
    import jsonschema
except ImportError:
    jsonschema = None
m = json.load(open('/verif/MANIFEST.json'))
hs = subprocess.run("git -C /repo log --reverse --format=%h -- verif_contracts.go verif_lemmas.go", shell=True, capture_output=True, text=True).stdout.split()
m['hooks']['source_commits'] = hs
for e in m.get('engines', []):
    e['serves_properties'] = sorted(c['property_id'] for c in m['checks'])
json.dump(m, open('/verif/MANIFEST.json', 'w'), indent=1)
if jsonschema:
    jsonschema.validate(m, json.load(open('/root/.vp/MANIFEST.schema.json')))
claimed = {c['property_id'] for c in m['checks']}
na = {x['property_id'] for x in m.get('not_applicable', [])}
allp = {json.loads(l)['id'] for l in open('/verif/properties.jsonl')}
assert claimed | na == allp and not (claimed & na), (allp - claimed - na, claimed & na)
print('MANIFEST ok:', len(claimed), 'claimed,', len(na), 'not applicable,', len(hs), 'hook commits')
