package main

// Translation of individual SSA instructions.

import (
	"fmt"
	"go/constant"
	"sort"
	"go/token"
	"go/types"

	"golang.org/x/tools/go/ssa"
)

func (fc *fctx) knownNonNil(v ssa.Value) bool {
	if fc.nonNil[v] {
		return true
	}
	switch x := v.(type) {
	case *ssa.Alloc, *ssa.FieldAddr, *ssa.IndexAddr, *ssa.Global, *ssa.MakeMap, *ssa.MakeClosure, *ssa.Function, *ssa.MakeSlice:
		return true
	case *ssa.ChangeType:
		return fc.knownNonNil(x.X)
	}
	return false
}

func (fc *fctx) nilCheck(v ssa.Value, what string, pos token.Pos) {
	if fc.knownNonNil(v) {
		return
	}
	tr := fc.tr
	tr.obligeAssume("safe", "safe/"+fnKey(fc.fn)+"/nil/"+what, not(eq(fc.val(v).E(), "0")), pos)
	fc.nonNil[v] = true
}

func typeDesc(t types.Type) string {
	return sanitize(types.TypeString(t, func(p *types.Package) string { return "" }))
}

func (fc *fctx) instr(ins ssa.Instruction) {
	tr := fc.tr
	u := tr.u
	switch x := ins.(type) {
	case *ssa.DebugRef:
	case *ssa.Phi:
		// handled in enterBlock
	case *ssa.Alloc:
		et := x.Type().Underlying().(*types.Pointer).Elem()
		a := tr.alloc()
		if at, ok := et.Underlying().(*types.Array); ok {
			if at.Len() <= 8 {
				for i := int64(0); i < at.Len(); i++ {
					tr.storeTag(ea(a, fmt.Sprint(i)), at.Elem(), u.zero(at.Elem()), "elem")
				}
			}
		} else {
			tr.store(a, et, u.zero(et))
		}
		fc.vals[x] = []*Val{mkVal(a, "Int", x.Type())}
		if !tr.leaks(x) {
			tr.protected = append(tr.protected, a)
			if tr.protectedLocalTypes == nil {
				tr.protectedLocalTypes = map[string]types.Type{}
			}
			if _, isArr := et.Underlying().(*types.Array); !isArr {
				tr.protectedLocalTypes[a] = et
			}
			if st, _ := structOf(et); st != nil {
				tr.protectedTypes[a] = et
			} else {
				switch et.Underlying().(type) {
				case *types.Map, *types.Pointer, *types.Slice:
					// a local variable holding a map / pointer / slice: what it designates is held by the local
					tr.protectedTypes[a] = et
				}
			}
		}
	case *ssa.Store:
		fc.derefCheck(x.Addr, x.Pos())
		if len(tr.protected) > 0 && loadedPointer(x.Addr) {
			// a store through a pointer that was loaded or received: it cannot designate a local whose address never
			// leaves the function (that address is stored nowhere)
			var cs []string
			base := "(obase " + fc.val(x.Addr).E() + ")"
			for _, a := range tr.protected {
				cs = append(cs, not(eq(base, a)))
			}
			tr.assume(and(cs...))
		}
		if up, ok := x.Addr.(*ssa.UnOp); ok && up.Op == token.MUL || isFieldOfLookup(x.Addr) {
			// a pointer read out of the document model (a pointer cell, a map value) designates a stand-alone object,
			// never a field of another struct or an element of a slice
			if st, _ := structOf(x.Addr.Type().Underlying().(*types.Pointer).Elem()); st != nil {
				p := fc.val(x.Addr).E()
				tr.assume(implies(not(eq(p, "0")), and(eq("(ftag "+p+")", "0"), eq("(obase "+p+")", p))))
				tr.trusted["pointers to structs that are read out of the document model (pointer cells, map values) designate stand-alone objects, not struct fields or slice elements"] = true
			}
		}
		et := x.Addr.Type().Underlying().(*types.Pointer).Elem()
		tr.storeTag(fc.val(x.Addr).E(), et, fc.val(x.Val), fc.addrTag(x.Addr))
	case *ssa.UnOp:
		fc.unop(x)
	case *ssa.BinOp:
		fc.binop(x)
	case *ssa.FieldAddr:
		st := x.X.Type().Underlying().(*types.Pointer).Elem()
		s, _ := structOf(st)
		fc.nilCheck(x.X, typeDesc(st)+"."+s.Field(x.Field).Name(), x.Pos())
		fc.vals[x] = []*Val{mkVal(u.fa(fc.val(x.X).E(), st, x.Field), "Int", x.Type())}
	case *ssa.Field:
		fc.setVal(x, u.fieldOf(fc.val(x.X), x.Field))
	case *ssa.IndexAddr:
		base := fc.val(x.X)
		idx := fc.val(x.Index)
		switch bt := x.X.Type().Underlying().(type) {
		case *types.Slice:
			tr.obligeAssume("safe", "safe/"+fnKey(fc.fn)+"/index/"+typeDesc(bt), fmt.Sprintf("(and (<= 0 %s) (< %s %s))", idx.E(), idx.E(), slPart(base, 2)), x.Pos())
			fc.setVal(x, mkVal(u.sla(base, idx.E()), "Int", x.Type()))
		case *types.Pointer:
			at := bt.Elem().Underlying().(*types.Array)
			fc.nilCheck(x.X, typeDesc(bt), x.Pos())
			tr.obligeAssume("safe", "safe/"+fnKey(fc.fn)+"/index/"+typeDesc(bt), fmt.Sprintf("(and (<= 0 %s) (< %s %d))", idx.E(), idx.E(), at.Len()), x.Pos())
			fc.setVal(x, mkVal(ea(base.E(), idx.E()), "Int", x.Type()))
		default:
			unsup("IndexAddr on %v", x.X.Type())
		}
	case *ssa.Index:
		base := fc.val(x.X)
		idx := fc.val(x.Index)
		if base.Sort == "String" {
			tr.obligeAssume("safe", "safe/"+fnKey(fc.fn)+"/index/string", fmt.Sprintf("(and (<= 0 %s) (< %s (str.len %s)))", idx.E(), idx.E(), base.E()), x.Pos())
			fc.setVal(x, mkVal("(str.to_code (str.at "+base.E()+" "+idx.E()+"))", "Int", x.Type()))
		} else {
			unsup("Index on %v", x.X.Type())
		}
	case *ssa.Lookup:
		fc.lookup(x)
	case *ssa.MapUpdate:
		fc.mapUpdate(x)
	case *ssa.MakeMap:
		a := tr.alloc()
		mt := x.Type().Underlying().(*types.Map)
		md, _, ks, _ := u.mapComps(mt)
		tr.setComp(md, fmt.Sprintf("(store %s %s ((as const (Array %s Bool)) false))", tr.cur.get(u, md), a, ks))
		ml := u.mapLen(mt)
		tr.setComp(ml, fmt.Sprintf("(store %s %s 0)", tr.cur.get(u, ml), a))
		fc.vals[x] = []*Val{mkVal(a, "Int", x.Type())}
	case *ssa.MakeSlice:
		a := tr.alloc()
		ln := fc.val(x.Len)
		cp := fc.val(x.Cap)
		tr.obligeAssume("safe", "safe/"+fnKey(fc.fn)+"/makeslice", fmt.Sprintf("(and (<= 0 %s) (<= %s %s))", ln.E(), ln.E(), cp.E()), x.Pos())
		st := x.Type().Underlying().(*types.Slice)
		// zero contents: fresh memory was never written, so assuming its content is consistent
		for _, l := range u.leavesTag(st.Elem(), "elem") {
			if l.comp == "UNSUPPORTED" {
				continue
			}
			z := u.zero(l.T)
			tr.assume(fmt.Sprintf("(forall ((i Int)) (! (= (select %s %s) %s) :pattern ((ea %s i))))", tr.cur.get(u, l.comp), u.leafAddr(ea(a, "i"), st.Elem(), l.path), z.E(), a))
		}
		fc.setVal(x, mkSlice(x.Type(), a, "0", ln.E(), cp.E()))
	case *ssa.Slice:
		fc.sliceOp(x)
	case *ssa.MakeInterface:
		v := fc.val(x.X)
		fc.setVal(x, mkIface(x.Type(), fmt.Sprint(u.typeID(x.X.Type())), u.box(v)))
	case *ssa.TypeAssert:
		fc.typeAssert(x)
	case *ssa.ChangeInterface:
		v := fc.val(x.X)
		fc.vals[x] = []*Val{{e: v.e, Sort: v.Sort, T: x.Type(), Ctor: v.Ctor, Parts: v.Parts}}
	case *ssa.ChangeType:
		v := fc.val(x.X)
		fc.vals[x] = []*Val{fc.retype(v, x.Type())}
	case *ssa.Convert:
		fc.convert(x)
	case *ssa.Extract:
		vs := fc.valN(x.Tuple)
		if x.Index >= len(vs) {
			unsup("extract %d of %d-tuple", x.Index, len(vs))
		}
		fc.vals[x] = []*Val{vs[x.Index]}
	case *ssa.MakeClosure:
		fn := x.Fn.(*ssa.Function)
		var bs []*Val
		for _, b := range x.Bindings {
			bs = append(bs, fc.val(b))
		}
		a := tr.alloc()
		tr.closures[a] = &closureInfo{fn: fn, bindings: bs}
		fc.vals[x] = []*Val{mkVal(a, "Int", x.Type())}
	case *ssa.Range:
		ri := &rangeInfo{x: fc.val(x.X)}
		if mt, ok := x.X.Type().Underlying().(*types.Map); ok {
			ri.isMap = true
			ri.mt = mt
			ri.key = fc.prefix + "IT_" + x.Name()
			ks := u.sortOf(mt.Key())
			u.compSort[ri.key] = "(Array " + ks + " Bool)"
			tr.cur.M[ri.key] = tr.define(ri.key, u.compSort[ri.key], "((as const (Array "+ks+" Bool)) false)")
		}
		fc.ranges[x] = ri
		fc.vals[x] = []*Val{intVal("0")}
	case *ssa.Next:
		fc.next(x)
	case *ssa.Call:
		res := fc.call(x.Common(), x.Pos(), x)
		fc.vals[x] = res
	case *ssa.Defer:
		fc.defers = append(fc.defers, deferred{call: x.Common(), block: x.Block(), pos: x.Pos(), cond: tr.reach})
	case *ssa.RunDefers:
		for i := len(fc.defers) - 1; i >= 0; i-- {
			d := fc.defers[i]
			if !d.block.Dominates(x.Block()) {
				// a defer statement on some paths only: its call runs exactly when the statement was reached
				saveReach := tr.reach
				before := tr.cur.clone()
				tr.reach = and(saveReach, d.cond)
				fc.call(d.call, d.pos, nil)
				after := tr.cur
				tr.reach = saveReach
				tr.cur = tr.mergeStates([]string{d.cond, not(d.cond)}, []*State{after, before})
				continue
			}
			fc.call(d.call, d.pos, nil)
		}
	case *ssa.Return:
		var vs []*Val
		for _, r := range x.Results {
			vs = append(vs, fc.val(r))
		}
		fc.rets = append(fc.rets, retInfo{reach: tr.reach, vals: vs, st: tr.cur.clone(), pos: x.Pos()})
	case *ssa.Jump:
		fc.goEdge(x.Block(), x.Block().Succs[0], tr.reach)
	case *ssa.If:
		c := fc.val(x.Cond).E()
		b := x.Block()
		fc.goEdge(b, b.Succs[0], and(tr.reach, c))
		fc.goEdge(b, b.Succs[1], and(tr.reach, not(c)))
	case *ssa.Panic:
		tr.oblige("safe", "safe/"+fnKey(fc.fn)+"/panic", "false", x.Pos(), nil, "")
	case *ssa.Go, *ssa.Select, *ssa.Send, *ssa.MakeChan:
		unsup("concurrency instruction %T in %s", ins, fnKey(fc.fn))
	case *ssa.SliceToArrayPointer, *ssa.MultiConvert:
		unsup("instruction %T", ins)
	default:
		unsup("instruction %T", ins)
	}
}

// isFieldOfLookup: the value is a field of a struct obtained by a map lookup (v := m[k]; v.Schema)
func isFieldOfLookup(v ssa.Value) bool {
	for {
		switch x := v.(type) {
		case *ssa.Field:
			v = x.X
		case *ssa.Extract:
			v = x.Tuple
		case *ssa.Lookup:
			return true
		default:
			return false
		}
	}
}

// loadedPointer: the pointer value was read out of memory (a pointer cell, a map value, a call result), possibly followed
// by field / element address computations - as opposed to a parameter, a free variable or a local allocation.  Such a
// pointer cannot be the address of a local whose address is stored nowhere.
func loadedPointer(v ssa.Value) bool {
	for {
		switch x := v.(type) {
		case *ssa.UnOp:
			return x.Op == token.MUL
		case *ssa.Lookup:
			return true
		case *ssa.Field:
			v = x.X
		case *ssa.Extract:
			v = x.Tuple
		case *ssa.FieldAddr:
			v = x.X
		case *ssa.IndexAddr:
			v = x.X
		case *ssa.ChangeType:
			v = x.X
		default:
			return false
		}
	}
}

func (fc *fctx) retype(v *Val, t types.Type) *Val {
	return &Val{e: v.e, Sort: v.Sort, T: t, Ctor: v.Ctor, Parts: v.Parts}
}

func (fc *fctx) goEdge(from, to *ssa.BasicBlock, cond string) {
	if isBackEdge(from, to) {
		fc.backEdge(from, to, cond)
		return
	}
	key := [2]int{from.Index, to.Index}
	if prev, ok := fc.edge[key]; ok {
		fc.edge[key] = or(prev, cond)
	} else {
		fc.edge[key] = cond
	}
}

func (fc *fctx) derefCheck(addr ssa.Value, pos token.Pos) {
	if fc.knownNonNil(addr) {
		return
	}
	fc.nilCheck(addr, "deref/"+typeDesc(addr.Type()), pos)
}

func (fc *fctx) unop(x *ssa.UnOp) {
	tr := fc.tr
	switch x.Op {
	case token.MUL:
		fc.derefCheck(x.X, x.Pos())
		et := x.X.Type().Underlying().(*types.Pointer).Elem()
		fc.setVal(x, tr.loadTag(tr.cur, fc.val(x.X).E(), et, fc.addrTag(x.X)))
		// a package-level []byte("literal") that is never written: its JSON value is the literal's
		if g, ok := x.X.(*ssa.Global); ok {
			if lit, ok := tr.constGlobalLiteral(g); ok {
				tr.jsonLiteralFacts(fc.val(x), lit)
				tr.trusted["package-level []byte literals that no function writes (jsTrue, jsFalse) hold their initial value; their bytes are not modified through aliases"] = true
			}
		}
		// data[0] of a byte slice: the first byte of the text the slice holds (byte slices that carry JSON are
		// never written after they are produced: jv() and jbyte0() are functions of the slice value)
		if ia, ok := x.X.(*ssa.IndexAddr); ok {
			if st, ok := ia.X.Type().Underlying().(*types.Slice); ok {
				if bt, ok := st.Elem().Underlying().(*types.Basic); ok && bt.Kind() == types.Uint8 {
					if c, ok := ia.Index.(*ssa.Const); ok && c.Value != nil && c.Value.ExactString() == "0" {
						tr.jsonDecls()
						tr.assume(eq(fc.val(x).E(), "(jbyte0 "+fc.val(ia.X).E()+")"))
					}
				}
			}
		}
	case token.NOT:
		fc.setVal(x, mkVal(not(fc.val(x.X).E()), "Bool", x.Type()))
	case token.SUB:
		v := fc.val(x.X)
		fc.setVal(x, mkVal("(- "+v.E()+")", v.Sort, x.Type()))
	case token.XOR:
		tr.u.decl("bvnot", "(declare-fun go_bitnot (Int) Int)")
		fc.setVal(x, mkVal("(go_bitnot "+fc.val(x.X).E()+")", "Int", x.Type()))
	default:
		unsup("unary op %v", x.Op)
	}
}

func (fc *fctx) binop(x *ssa.BinOp) {
	tr := fc.tr
	a := fc.val(x.X)
	b := fc.val(x.Y)
	res := func(e, sort string) { fc.setVal(x, mkVal(e, sort, x.Type())) }
	switch x.Op {
	case token.EQL, token.NEQ:
		var r string
		if a.Sort != b.Sort {
			// comparison with untyped nil constant
			if a.Sort == "Slice" && b.Sort == "Int" {
				r = eq(slPart(a, 0), "0")
			} else if a.Sort == "Iface" && b.Sort == "Int" {
				r = eq(ifPart(a, 0), "0")
			} else if b.Sort == "Slice" && a.Sort == "Int" {
				r = eq(slPart(b, 0), "0")
			} else if b.Sort == "Iface" && a.Sort == "Int" {
				r = eq(ifPart(b, 0), "0")
			} else {
				unsup("comparison of %s with %s", a.Sort, b.Sort)
			}
		} else if a.Sort == "Slice" {
			// only comparison with nil is legal
			if isNilConst(x.Y) {
				r = eq(slPart(a, 0), "0")
			} else {
				r = eq(slPart(b, 0), "0")
			}
		} else if a.Sort == "Iface" && (isNilConst(x.Y) || isNilConst(x.X)) {
			if isNilConst(x.Y) {
				r = eq(ifPart(a, 0), "0")
			} else {
				r = eq(ifPart(b, 0), "0")
			}
		} else {
			r = eq(a.E(), b.E())
		}
		if x.Op == token.NEQ {
			r = not(r)
		}
		res(r, "Bool")
	case token.LSS, token.LEQ, token.GTR, token.GEQ:
		op := map[token.Token]string{token.LSS: "<", token.LEQ: "<=", token.GTR: ">", token.GEQ: ">="}[x.Op]
		if a.Sort == "String" {
			switch x.Op {
			case token.LSS:
				res("(str.< "+a.E()+" "+b.E()+")", "Bool")
			case token.LEQ:
				res("(str.<= "+a.E()+" "+b.E()+")", "Bool")
			case token.GTR:
				res("(str.< "+b.E()+" "+a.E()+")", "Bool")
			default:
				res("(str.<= "+b.E()+" "+a.E()+")", "Bool")
			}
			return
		}
		res("("+op+" "+a.E()+" "+b.E()+")", "Bool")
	case token.ADD:
		if a.Sort == "String" {
			res("(str.++ "+a.E()+" "+b.E()+")", "String")
			return
		}
		res(add(a.E(), b.E()), a.Sort)
	case token.SUB:
		res("(- "+a.E()+" "+b.E()+")", a.Sort)
	case token.MUL:
		res("(* "+a.E()+" "+b.E()+")", a.Sort)
	case token.QUO:
		if a.Sort == "Int" {
			tr.obligeAssume("safe", "safe/"+fnKey(fc.fn)+"/divzero", not(eq(b.E(), "0")), x.Pos())
			tr.u.decl("godiv", "(define-fun go_div ((a Int) (b Int)) Int (ite (>= a 0) (div a b) (- (div (- a) b))))")
			res("(go_div "+a.E()+" "+b.E()+")", "Int")
		} else {
			res("(/ "+a.E()+" "+b.E()+")", a.Sort)
		}
	case token.REM:
		tr.obligeAssume("safe", "safe/"+fnKey(fc.fn)+"/divzero", not(eq(b.E(), "0")), x.Pos())
		tr.u.decl("gorem", "(define-fun go_rem ((a Int) (b Int)) Int (ite (>= a 0) (mod a b) (- (mod (- a) b))))")
		res("(go_rem "+a.E()+" "+b.E()+")", "Int")
	case token.AND, token.OR, token.XOR, token.SHL, token.SHR, token.AND_NOT:
		if a.Sort == "Bool" {
			switch x.Op {
			case token.AND:
				res(and(a.E(), b.E()), "Bool")
			case token.OR:
				res(or(a.E(), b.E()), "Bool")
			default:
				unsup("bool op %v", x.Op)
			}
			return
		}
		fn := "go_bit_" + map[token.Token]string{token.AND: "and", token.OR: "or", token.XOR: "xor", token.SHL: "shl", token.SHR: "shr", token.AND_NOT: "andnot"}[x.Op]
		tr.u.decl(fn, "(declare-fun "+fn+" (Int Int) Int)")
		res("("+fn+" "+a.E()+" "+b.E()+")", "Int")
	default:
		unsup("binary op %v", x.Op)
	}
}

func isNilConst(v ssa.Value) bool {
	c, ok := v.(*ssa.Const)
	return ok && c.Value == nil
}

func (fc *fctx) lookup(x *ssa.Lookup) {
	tr := fc.tr
	u := tr.u
	base := fc.val(x.X)
	idx := fc.val(x.Index)
	if base.Sort == "String" {
		tr.obligeAssume("safe", "safe/"+fnKey(fc.fn)+"/index/string", fmt.Sprintf("(and (<= 0 %s) (< %s (str.len %s)))", idx.E(), idx.E(), base.E()), x.Pos())
		fc.setVal(x, mkVal("(str.to_code (str.at "+base.E()+" "+idx.E()+"))", "Int", x.Type()))
		return
	}
	mt := x.X.Type().Underlying().(*types.Map)
	md, mv, _, vs := u.mapComps(mt)
	in := tr.define(fc.prefix+x.Name()+"_in", "Bool", "(select (select "+tr.cur.get(u, md)+" "+base.E()+") "+idx.E()+")")
	val := ite(in, "(select (select "+tr.cur.get(u, mv)+" "+base.E()+") "+idx.E()+")", u.zero(mt.Elem()).E())
	v := fc.name(x.Name(), mkVal(val, vs, mt.Elem()))
	if x.CommaOk {
		fc.vals[x] = []*Val{v, boolVal(in)}
	} else {
		fc.vals[x] = []*Val{v}
	}
}

func (fc *fctx) mapUpdate(x *ssa.MapUpdate) {
	tr := fc.tr
	u := tr.u
	m := fc.val(x.Map)
	k := fc.val(x.Key)
	v := fc.val(x.Value)
	mt := x.Map.Type().Underlying().(*types.Map)
	if !fc.knownNonNil(x.Map) {
		tr.obligeAssume("safe", "safe/"+fnKey(fc.fn)+"/nilmap/"+typeDesc(mt), not(eq(m.E(), "0")), x.Pos())
		fc.nonNil[x.Map] = true
	}
	md, mv, _, _ := u.mapComps(mt)
	dom := "(select " + tr.cur.get(u, md) + " " + m.E() + ")"
	was := tr.define(fc.prefix+"was", "Bool", "(select "+dom+" "+k.E()+")")
	ml := u.mapLen(mt)
	tr.setComp(ml, fmt.Sprintf("(store %s %s (+ (select %s %s) %s))", tr.cur.get(u, ml), m.E(), tr.cur.get(u, ml), m.E(), ite(was, "0", "1")))
	tr.setComp(md, fmt.Sprintf("(store %s %s (store %s %s true))", tr.cur.get(u, md), m.E(), dom, k.E()))
	vals := "(select " + tr.cur.get(u, mv) + " " + m.E() + ")"
	tr.setComp(mv, fmt.Sprintf("(store %s %s (store %s %s %s))", tr.cur.get(u, mv), m.E(), vals, k.E(), v.E()))
}

func (fc *fctx) next(x *ssa.Next) {
	tr := fc.tr
	u := tr.u
	ri := fc.ranges[x.Iter]
	if ri == nil {
		unsup("next on unknown iterator")
	}
	ok := fc.freshVal(x.Name()+"_ok", types.Typ[types.Bool])
	if x.IsString {
		k := fc.freshVal(x.Name()+"_k", types.Typ[types.Int])
		v := fc.freshVal(x.Name()+"_v", types.Typ[types.Int32])
		tr.assume(implies(ok.E(), fmt.Sprintf("(and (<= 0 %s) (< %s (str.len %s)))", k.E(), k.E(), ri.x.E())))
		fc.vals[x] = []*Val{ok, k, v}
		return
	}
	mt := ri.mt
	md, mv, ks, _ := u.mapComps(mt)
	k := fc.freshVal(x.Name()+"_k", mt.Key())
	seen := tr.cur.get(u, ri.key)
	dom := "(select " + tr.cur.get(u, md) + " " + ri.x.E() + ")"
	// ok: k is an unvisited member; !ok: every member was visited
	tr.assume(implies(ok.E(), and("(select "+dom+" "+k.E()+")", not("(select "+seen+" "+k.E()+")"))))
	tr.assume(implies(not(ok.E()), fmt.Sprintf("(forall ((k %s)) (! (=> (select %s k) (select %s k)) :pattern ((select %s k))))", ks, dom, seen, dom)))
	v := fc.name(x.Name()+"_v", mkVal("(select (select "+tr.cur.get(u, mv)+" "+ri.x.E()+") "+k.E()+")", u.sortOf(mt.Elem()), mt.Elem()))
	tr.cur.M[ri.key] = tr.define(ri.key, u.compSort[ri.key], ite(ok.E(), "(store "+seen+" "+k.E()+" true)", seen))
	fc.vals[x] = []*Val{ok, k, v}
}

func (fc *fctx) sliceOp(x *ssa.Slice) {
	tr := fc.tr
	base := fc.val(x.X)
	lo := "0"
	if x.Low != nil {
		lo = fc.val(x.Low).E()
	}
	switch bt := x.X.Type().Underlying().(type) {
	case *types.Basic: // string
		hi := "(str.len " + base.E() + ")"
		if x.High != nil {
			hi = fc.val(x.High).E()
		}
		tr.obligeAssume("safe", "safe/"+fnKey(fc.fn)+"/slice/string", fmt.Sprintf("(and (<= 0 %s) (<= %s %s) (<= %s (str.len %s)))", lo, lo, hi, hi, base.E()), x.Pos())
		fc.setVal(x, mkVal(fmt.Sprintf("(str.substr %s %s (- %s %s))", base.E(), lo, hi, lo), "String", x.Type()))
	case *types.Slice:
		hi := slPart(base, 2)
		if x.High != nil {
			hi = fc.val(x.High).E()
		}
		mx := slPart(base, 3)
		if x.Max != nil {
			mx = fc.val(x.Max).E()
		}
		tr.obligeAssume("safe", "safe/"+fnKey(fc.fn)+"/slice/"+typeDesc(bt), fmt.Sprintf("(and (<= 0 %s) (<= %s %s) (<= %s %s) (<= %s %s))", lo, lo, hi, hi, mx, mx, slPart(base, 3)), x.Pos())
		fc.setVal(x, mkSlice(x.Type(), slPart(base, 0), add(slPart(base, 1), lo), sub(hi, lo), sub(mx, lo)))
	case *types.Pointer:
		at := bt.Elem().Underlying().(*types.Array)
		fc.nilCheck(x.X, typeDesc(bt), x.Pos())
		n := fmt.Sprint(at.Len())
		hi := n
		if x.High != nil {
			hi = fc.val(x.High).E()
		}
		mx := n
		if x.Max != nil {
			mx = fc.val(x.Max).E()
		}
		tr.obligeAssume("safe", "safe/"+fnKey(fc.fn)+"/slice/"+typeDesc(bt), fmt.Sprintf("(and (<= 0 %s) (<= %s %s) (<= %s %s) (<= %s %s))", lo, lo, hi, hi, mx, mx, n), x.Pos())
		fc.setVal(x, mkSlice(x.Type(), base.E(), lo, sub(hi, lo), sub(mx, lo)))
	default:
		unsup("slice of %v", x.X.Type())
	}
}

func sub(a, b string) string {
	if b == "0" {
		return a
	}
	if isNum(a) && isNum(b) {
		var x, y int
		fmt.Sscan(a, &x)
		fmt.Sscan(b, &y)
		if x >= y {
			return fmt.Sprint(x - y)
		}
	}
	return "(- " + a + " " + b + ")"
}

func isNum(s string) bool {
	if s == "" {
		return false
	}
	for _, c := range s {
		if c < '0' || c > '9' {
			return false
		}
	}
	return true
}

func (fc *fctx) typeAssert(x *ssa.TypeAssert) {
	tr := fc.tr
	u := tr.u
	v := fc.val(x.X)
	var ok string
	var res *Val
	if _, isIface := x.AssertedType.Underlying().(*types.Interface); isIface {
		it := x.AssertedType.Underlying().(*types.Interface)
		if it.NumMethods() == 0 {
			ok = not(eq(ifPart(v, 0), "0"))
		} else {
			fn := "implements_" + typeDesc(x.AssertedType)
			u.decl(fn, "(declare-fun "+fn+" (Int) Bool)")
			u.decl(fn+"_nil", "(assert (not ("+fn+" 0)))")
			ok = "(" + fn + " " + ifPart(v, 0) + ")"
		}
		res = fc.retype(v, x.AssertedType)
		if x.CommaOk {
			okc := tr.define(fc.prefix+x.Name()+"_ok", "Bool", ok)
			z := u.zero(x.AssertedType)
			fc.vals[x] = []*Val{fc.name(x.Name(), mkVal(ite(okc, v.E(), z.E()), "Iface", x.AssertedType)), boolVal(okc)}
			return
		}
		tr.obligeAssume("safe", "safe/"+fnKey(fc.fn)+"/typeassert/"+typeDesc(x.AssertedType), ok, x.Pos())
		fc.vals[x] = []*Val{res}
		return
	}
	id := u.typeID(x.AssertedType)
	ok = eq(ifPart(v, 0), fmt.Sprint(id))
	sort := u.sortOf(x.AssertedType)
	payload := mkVal(u.unbox(ifPart(v, 1), sort), sort, x.AssertedType)
	if x.CommaOk {
		okc := tr.define(fc.prefix+x.Name()+"_ok", "Bool", ok)
		z := u.zero(x.AssertedType)
		fc.vals[x] = []*Val{fc.name(x.Name(), mkVal(ite(okc, payload.E(), z.E()), sort, x.AssertedType)), boolVal(okc)}
		return
	}
	tr.obligeAssume("safe", "safe/"+fnKey(fc.fn)+"/typeassert/"+typeDesc(x.AssertedType), ok, x.Pos())
	fc.setVal(x, payload)
}

func (fc *fctx) convert(x *ssa.Convert) {
	tr := fc.tr
	u := tr.u
	v := fc.val(x.X)
	from := u.sortOf(x.X.Type())
	to := u.sortOf(x.Type())
	switch {
	case from == to && from != "Slice":
		fc.vals[x] = []*Val{fc.retype(v, x.Type())}
	case from == "Int" && to == "Real":
		fc.setVal(x, mkVal("(to_real "+v.E()+")", "Real", x.Type()))
	case from == "Real" && to == "Int":
		u.decl("f2i", "(declare-fun go_f2i (Real) Int)")
		fc.setVal(x, mkVal("(go_f2i "+v.E()+")", "Int", x.Type()))
	case from == "Slice" && to == "String":
		u.decl("bytes2str", "(declare-fun bytes2str ((Array Int Int) Slice) String)")
		u.decl("bytes2str_len", "(assert (forall ((m (Array Int Int)) (s Slice)) (! (= (str.len (bytes2str m s)) (sl_len s)) :pattern ((bytes2str m s)))))")
		fc.setVal(x, mkVal("(bytes2str "+tr.cur.get(u, "MInt$elem")+" "+v.E()+")", "String", x.Type()))
	case from == "String" && to == "Slice":
		a := tr.alloc()
		u.decl("bytes2str", "(declare-fun bytes2str ((Array Int Int) Slice) String)")
		u.decl("bytes2str_len", "(assert (forall ((m (Array Int Int)) (s Slice)) (! (= (str.len (bytes2str m s)) (sl_len s)) :pattern ((bytes2str m s)))))")
		res := mkSlice(x.Type(), a, "0", "(str.len "+v.E()+")", "(str.len "+v.E()+")")
		tr.assume(eq("(bytes2str "+tr.cur.get(u, "MInt$elem")+" "+res.E()+")", v.E()))
		if c, ok := x.X.(*ssa.Const); ok && c.Value != nil && c.Value.Kind() == constant.String {
			tr.jsonLiteralFacts(res, constant.StringVal(c.Value))
		}
		fc.setVal(x, res)
	case from == "Slice" && to == "Slice":
		fc.vals[x] = []*Val{fc.retype(v, x.Type())}
	case from == "Int" && to == "String":
		u.decl("rune2str", "(declare-fun rune2str (Int) String)")
		fc.setVal(x, mkVal("(rune2str "+v.E()+")", "String", x.Type()))
	default:
		unsup("convert %s -> %s", from, to)
	}
}

// ---------------------------------------------------------------------------
// calls

func (fc *fctx) call(cc *ssa.CallCommon, pos token.Pos, site *ssa.Call) []*Val {
	tr := fc.tr
	u := tr.u
	if b, ok := cc.Value.(*ssa.Builtin); ok {
		return fc.builtin(b, cc, pos, site)
	}
	var args []*Val
	tr.callLocalArgs = nil
	tr.callArgTypes = map[string]types.Type{}
	for _, a := range cc.Args {
		// static type of what a pointer-like argument designates
		switch at := a.Type().Underlying().(type) {
		case *types.Pointer:
			tr.callArgTypes[fc.val(a).E()] = at.Elem()
		case *types.Slice:
			tr.callArgTypes[slPart(fc.val(a), 0)] = at.Elem()
		case *types.Map:
			tr.callArgTypes[fc.val(a).E()] = a.Type()
		case *types.Interface:
			if inner, it := staticArgType(a); inner != nil {
				if pt, ok := it.Underlying().(*types.Pointer); ok {
					tr.callArgTypes[ifPart(fc.val(a), 1)] = pt.Elem()
				}
			}
		}
	}
	for _, a := range cc.Args {
		if st, _ := structOf(a.Type()); st != nil {
			if ld, ok := a.(*ssa.UnOp); ok && ld.Op == token.MUL {
				if al, ok := ld.X.(*ssa.Alloc); ok {
					if tr.callLocalArgs == nil {
						tr.callLocalArgs = map[string]bool{}
					}
					tr.callLocalArgs[fc.val(al).E()] = true
				}
			}
		}
	}
	for _, a := range cc.Args {
		v := fc.val(a)
		// a pointer to a leaf cell carries the partition of the cell it designates (a struct field, a slice element):
		// the callee's contract reads and writes *p there
		if pt, ok := a.Type().Underlying().(*types.Pointer); ok && v.Tag == "" {
			if st, _ := structOf(pt.Elem()); st == nil {
				if tag := fc.addrTag(a); tag != "cell" {
					cp := *v
					cp.Tag = tag
					v = &cp
				}
			}
		}
		args = append(args, v)
	}
	if cc.IsInvoke() {
		recv := fc.val(cc.Value)
		key := ifaceKey(cc)
		tr.obligeAssume("safe", "safe/"+fnKey(fc.fn)+"/nil/invoke/"+sanitize(key), not(eq(ifPart(recv, 0), "0")), pos)
		if c, ok := tr.contracts.Ifaces[key]; ok {
			sig := cc.Signature()
			return fc.callContract(c, key, tr.contracts.ExtSigs[key], append([]*Val{recv}, args...), sig.Results(), pos)
		}
		tr.warn("%s: invoke %s without contract: havoc everything", fnKey(fc.fn), key)
		tr.callArgs = nil
		for _, a := range append([]*Val{recv}, args...) {
			tr.callArgs = append(tr.callArgs, tr.pointersIn(a, 0)...)
		}
		tr.havocAll()
		return fc.freshResults(cc.Signature().Results(), "inv")
	}
	callee := cc.StaticCallee()
	var bindings []*Val
	if callee == nil {
		if ci := tr.closures[fc.val(cc.Value).E()]; ci != nil {
			callee = ci.fn
			bindings = ci.bindings
		}
	} else if mc, ok := cc.Value.(*ssa.MakeClosure); ok {
		for _, b := range mc.Bindings {
			bindings = append(bindings, fc.val(b))
		}
	}
	if callee == nil {
		return fc.dynamicCall(cc, args, pos)
	}
	key := fnKey(callee)
	if callee.Pkg != nil && callee.Pkg != tr.spkg {
		return fc.externalCall(callee, args, cc, pos)
	}
	// wrapper / bound-method thunks and synthetic functions: inline
	if c, ok := tr.contracts.Funcs[key]; ok && !tr.inlineAnyway[key] {
		// recursion or explicit contract: modular call
		var names []Param
		for _, p := range callee.Params {
			names = append(names, Param{p.Name(), ""})
		}
		_ = u
		return fc.callContractFn(c, callee, args, pos)
	}
	for _, f := range tr.stack {
		if f == callee {
			unsup("recursive function %s needs a contract", key)
		}
	}
	if len(tr.stack) > 5 {
		unsup("inlining depth exceeded at %s", key)
	}
	if len(callee.Blocks) == 0 {
		tr.warn("%s: call of body-less %s: havoc everything", fnKey(fc.fn), key)
		tr.callArgs = nil
		for _, a := range args {
			tr.callArgs = append(tr.callArgs, tr.pointersIn(a, 0)...)
		}
		tr.havocAll()
		return fc.freshResults(callee.Signature.Results(), "ext")
	}
	return fc.inline(callee, args, bindings, pos)
}

func (fc *fctx) freshResults(res *types.Tuple, tag string) []*Val {
	var out []*Val
	for i := 0; i < res.Len(); i++ {
		out = append(out, fc.freshVal(fmt.Sprintf("%s_r%d", tag, i), res.At(i).Type()))
	}
	if len(out) == 0 {
		return []*Val{}
	}
	return out
}

func (fc *fctx) inline(callee *ssa.Function, args []*Val, bindings []*Val, pos token.Pos) []*Val {
	tr := fc.tr
	u := tr.u
	sub := tr.newFctx(callee)
	sub.freeVars = bindings
	sub.contract = nil
	for i, p := range callee.Params {
		if i < len(args) {
			sub.vals[p] = []*Val{args[i]}
		}
	}
	tr.stack = append(tr.stack, callee)
	saveReach := tr.reach
	sub.run(tr.reach)
	tr.stack = tr.stack[:len(tr.stack)-1]
	// merge returns
	if len(sub.rets) == 0 {
		// never returns (panics on all paths): the continuation is unreachable
		tr.reach = saveReach
		tr.assume("false")
		return fc.freshResults(callee.Signature.Results(), "nr")
	}
	tr.reach = saveReach
	if len(sub.rets) == 1 {
		tr.cur = sub.rets[0].st
		return sub.rets[0].vals
	}
	st := &State{M: map[string]string{}}
	st.Epoch = sub.rets[0].st.Epoch
	for _, r := range sub.rets[1:] {
		if r.st.Epoch != st.Epoch {
			tr.epoch++
			st.Epoch = tr.epoch
			var edges []epochEdge
			for _, r2 := range sub.rets {
				edges = append(edges, epochEdge{r2.reach, r2.st.Epoch})
			}
			u.epochs[tr.epoch] = epochRel{merge: edges}
			break
		}
	}
	keys := map[string]bool{}
	for _, r := range sub.rets {
		for k := range r.st.M {
			keys[k] = true
		}
	}
	var sortedKeys []string
	for k := range keys {
		sortedKeys = append(sortedKeys, k)
	}
	sort.Strings(sortedKeys)
	for _, k := range sortedKeys {
		if _, ok := u.compSort[k]; !ok {
			continue
		}
		first := sub.rets[0].st.get(u, k)
		same := true
		for _, r := range sub.rets[1:] {
			if r.st.get(u, k) != first {
				same = false
			}
		}
		if same {
			st.M[k] = first
			continue
		}
		n := u.freshConst(k, u.compSort[k])
		for _, r := range sub.rets {
			tr.fact(implies(r.reach, eq(n, r.st.get(u, k))))
		}
		st.M[k] = n
	}
	tr.cur = st
	res := callee.Signature.Results()
	var out []*Val
	for i := 0; i < res.Len(); i++ {
		rv := fc.freshVal(fmt.Sprintf("inl_r%d", i), res.At(i).Type())
		for _, r := range sub.rets {
			tr.fact(implies(r.reach, eq(rv.E(), r.vals[i].E())))
		}
		out = append(out, rv)
	}
	return out
}

func (fc *fctx) dynamicCall(cc *ssa.CallCommon, args []*Val, pos token.Pos) []*Val {
	tr := fc.tr
	u := tr.u
	f := fc.val(cc.Value)
	// a function value loaded from a struct field may have a contract keyed by the field name
	var fieldContract *FuncContract
	fieldKey := ""
	if ld, ok := cc.Value.(*ssa.UnOp); ok {
		if fa, ok := ld.X.(*ssa.FieldAddr); ok {
			st := fa.X.Type().Underlying().(*types.Pointer).Elem().Underlying().(*types.Struct)
			fieldKey = "field:" + st.Field(fa.Field).Name()
			fieldContract = tr.contracts.Ifaces[fieldKey]
		}
	}
	if fieldContract != nil {
		defer func() {}()
	}
	tr.obligeAssume("safe", "safe/"+fnKey(fc.fn)+"/nil/funcvalue", not(eq(f.E(), "0")), pos)
	tr.trusted["dynamic calls through function values only bump the ghost counters calls(f,key)/lastArg(f,key); they are assumed not to write memory visible to the caller"] = true
	if len(args) >= 1 && args[0].Sort == "String" {
		cnt := tr.cur.get(u, "GCnt")
		row := "(select " + cnt + " " + f.E() + ")"
		tr.setComp("GCnt", fmt.Sprintf("(store %s %s (store %s %s (+ (select %s %s) 1)))", cnt, f.E(), row, args[0].E(), row, args[0].E()))
		if len(args) >= 2 && args[1].Sort == "Iface" {
			last := tr.cur.get(u, "GLast")
			lrow := "(select " + last + " " + f.E() + ")"
			tr.setComp("GLast", fmt.Sprintf("(store %s %s (store %s %s %s))", last, f.E(), lrow, args[0].E(), args[1].E()))
		}
	}
	if fieldContract != nil {
		return fc.callContract(fieldContract, fieldKey, tr.contracts.ExtSigs[fieldKey], append([]*Val{f}, args...), cc.Signature().Results(), pos)
	}
	return fc.freshResults(cc.Signature().Results(), "dyn")
}

func (fc *fctx) builtin(b *ssa.Builtin, cc *ssa.CallCommon, pos token.Pos, site *ssa.Call) []*Val {
	tr := fc.tr
	u := tr.u
	switch b.Name() {
	case "len":
		v := fc.val(cc.Args[0])
		switch v.Sort {
		case "Slice":
			return []*Val{intVal(slPart(v, 2))}
		case "String":
			return []*Val{intVal("(str.len " + v.E() + ")")}
		case "Int":
			if mt, ok := cc.Args[0].Type().Underlying().(*types.Map); ok {
				return []*Val{intVal("(select " + tr.cur.get(u, u.mapLen(mt)) + " " + v.E() + ")")}
			}
		}
		unsup("len of %s", v.Sort)
	case "cap":
		return []*Val{intVal(slPart(fc.val(cc.Args[0]), 3))}
	case "append":
		return []*Val{fc.appendOp(cc, pos)}
	case "delete":
		m := fc.val(cc.Args[0])
		k := fc.val(cc.Args[1])
		mt := cc.Args[0].Type().Underlying().(*types.Map)
		md, _, _, _ := u.mapComps(mt)
		dom := "(select " + tr.cur.get(u, md) + " " + m.E() + ")"
		was := tr.define(fc.prefix+"was", "Bool", "(select "+dom+" "+k.E()+")")
		// deleting from a nil map is a no-op
		ml := u.mapLen(mt)
		tr.setComp(ml, fmt.Sprintf("(store %s %s (- (select %s %s) %s))", tr.cur.get(u, ml), m.E(), tr.cur.get(u, ml), m.E(), ite(was, "1", "0")))
		tr.setComp(md, fmt.Sprintf("(store %s %s (store %s %s false))", tr.cur.get(u, md), m.E(), dom, k.E()))
		return []*Val{}
	case "recover":
		return []*Val{mkIface(types.NewInterfaceType(nil, nil), "0", "0")}
	case "copy":
		// abstracted: destination elements havocked
		dst := fc.val(cc.Args[0])
		if st, ok := cc.Args[0].Type().Underlying().(*types.Slice); ok {
			for _, l := range u.leavesTag(st.Elem(), "elem") {
				old := tr.cur.get(u, l.comp)
				n := tr.havocComp(l.comp)
				tr.fact(fmt.Sprintf("(forall ((a Int)) (! (=> (not (= (obase a) (obase %s))) (= (select %s a) (select %s a))) :pattern ((select %s a))))", slPart(dst, 0), n, old, n))
			}
		}
		return []*Val{fc.freshVal("copy_n", types.Typ[types.Int])}
	case "print", "println":
		return []*Val{}
	case "min", "max":
		a, bb := fc.val(cc.Args[0]), fc.val(cc.Args[1])
		op := "<"
		if b.Name() == "max" {
			op = ">"
		}
		return []*Val{mkVal(ite("("+op+" "+a.E()+" "+bb.E()+")", a.E(), bb.E()), a.Sort, a.T)}
	case "ssa:wrapnilchk":
		return []*Val{fc.val(cc.Args[0])}
	}
	unsup("builtin %s", b.Name())
	return nil
}

// appendOp models append(s, t...).
func (fc *fctx) appendOp(cc *ssa.CallCommon, pos token.Pos) *Val {
	tr := fc.tr
	u := tr.u
	s := fc.val(cc.Args[0])
	t := fc.val(cc.Args[1])
	var elemT types.Type
	rt := cc.Args[0].Type()
	if st, ok := rt.Underlying().(*types.Slice); ok {
		elemT = st.Elem()
	} else {
		unsup("append to %v", rt)
	}
	if t.Sort == "String" {
		// append([]byte, string...)
		unsup("append of string to []byte")
	}
	tl := slPart(t, 2)
	sl, sc := slPart(s, 2), slPart(s, 3)
	newLen := add(sl, tl)
	fits := tr.define(fc.prefix+"fits", "Bool", "(<= "+newLen+" "+sc+")")
	leaves := u.leavesTag(elemT, "elem")
	// in-place branch
	inPlace := map[string]string{}
	if isNum(tl) {
		var n int
		fmt.Sscan(tl, &n)
		if n > 4 {
			unsup("append of %d literal elements", n)
		}
		save := tr.cur.clone()
		for j := 0; j < n; j++ {
			src := u.sla(t, fmt.Sprint(j))
			dst := u.sla(s, add(sl, fmt.Sprint(j)))
			tr.storeTag(dst, elemT, tr.loadTag(tr.cur, src, elemT, "elem"), "elem")
		}
		for _, l := range leaves {
			inPlace[l.comp] = tr.cur.get(u, l.comp)
		}
		tr.cur = save
	} else {
		for _, l := range leaves {
			if _, done := inPlace[l.comp]; done {
				continue
			}
			old := tr.cur.get(u, l.comp)
			n := u.freshConst(l.comp, u.compSort[l.comp])
			inPlace[l.comp] = n
			// only the cells of the backing array in [len, len+tl) change
			tr.fact(fmt.Sprintf("(forall ((a Int)) (! (=> (not (= (obase a) (obase %s))) (= (select %s a) (select %s a))) :pattern ((select %s a))))", slPart(s, 0), n, old, n))
		}
		for _, l := range leaves {
			n := inPlace[l.comp]
			old := tr.cur.get(u, l.comp)
			dst := u.leafAddr(u.sla(s, add(sl, "j")), elemT, l.path)
			src := u.leafAddr(u.sla(t, "j"), elemT, l.path)
			tr.fact(fmt.Sprintf("(forall ((j Int)) (! (=> (and (<= 0 j) (< j %s)) (= (select %s %s) (select %s %s))) :pattern ((select %s %s))))", tl, n, dst, old, src, n, dst))
			keep := u.leafAddr(u.sla(s, "j"), elemT, l.path)
			tr.fact(fmt.Sprintf("(forall ((j Int)) (! (=> (and (<= 0 j) (< j %s)) (= (select %s %s) (select %s %s))) :pattern ((select %s %s))))", sl, n, keep, old, keep, n, keep))
		}
	}
	// growth branch: fresh array, contents copied
	a := tr.alloc()
	newCap := u.freshConst(fc.prefix+"ncap", "Int")
	tr.fact("(>= " + newCap + " " + newLen + ")")
	grown := map[string]string{}
	for _, l := range leaves {
		if _, done := grown[l.comp]; done {
			continue
		}
		grown[l.comp] = tr.cur.get(u, l.comp)
	}
	// fresh memory: assume contents (see MakeSlice)
	for _, l := range leaves {
		cur := grown[l.comp]
		dstS := u.leafAddr(ea(a, "j"), elemT, l.path)
		srcS := u.leafAddr(u.sla(s, "j"), elemT, l.path)
		tr.fact(implies(not(fits), fmt.Sprintf("(forall ((j Int)) (! (=> (and (<= 0 j) (< j %s)) (= (select %s %s) (select %s %s))) :pattern ((select %s %s))))", sl, cur, dstS, cur, srcS, cur, dstS)))
		dstT := u.leafAddr(ea(a, add(sl, "j")), elemT, l.path)
		srcT := u.leafAddr(u.sla(t, "j"), elemT, l.path)
		if isNum(tl) {
			var n int
			fmt.Sscan(tl, &n)
			for j := 0; j < n; j++ {
				d := u.leafAddr(ea(a, add(sl, fmt.Sprint(j))), elemT, l.path)
				sr := u.leafAddr(u.sla(t, fmt.Sprint(j)), elemT, l.path)
				tr.fact(implies(not(fits), eq("(select "+cur+" "+d+")", "(select "+cur+" "+sr+")")))
			}
		} else {
			tr.fact(implies(not(fits), fmt.Sprintf("(forall ((j Int)) (! (=> (and (<= 0 j) (< j %s)) (= (select %s %s) (select %s %s))) :pattern ((select %s %s))))", tl, cur, dstT, cur, srcT, cur, dstT)))
		}
	}
	// merge the two branches
	for comp, ip := range inPlace {
		g := grown[comp]
		if ip == g {
			continue
		}
		tr.setComp(comp, ite(fits, ip, g))
	}
	res := mkSlice(rt, ite(fits, slPart(s, 0), a), ite(fits, slPart(s, 1), "0"), newLen, ite(fits, sc, newCap))
	// the result is named as an opaque slice; its element view is stated with sla-triggers so that
	// quantified facts about the operands (stated over sla(s, i)) connect to facts about the result
	rn := tr.define(fc.prefix+"app", "Slice", res.E())
	out := mkVal(rn, "Slice", rt)
	for _, l := range leaves {
		now := tr.cur.get(u, l.comp)
		before := grown[l.comp]
		dst := u.leafAddr("(sla "+rn+" j)", elemT, l.path)
		src := u.leafAddr(u.sla(s, "j"), elemT, l.path)
		u.sla(out, "0") // make sure sla is declared
		if !tr.appendView {
			continue
		}
		{
			tr.fact(fmt.Sprintf("(forall ((j Int)) (! (=> (and (<= 0 j) (< j %s)) (= (select %s %s) (select %s %s))) :pattern ((sla %s j))))", sl, now, dst, before, src, rn))
		}
		if isNum(tl) {
			var n int
			fmt.Sscan(tl, &n)
			for k := 0; k < n; k++ {
				d := u.leafAddr("(sla "+rn+" "+add(sl, fmt.Sprint(k))+")", elemT, l.path)
				sr := u.leafAddr(u.sla(t, fmt.Sprint(k)), elemT, l.path)
				tr.fact(eq("(select "+now+" "+d+")", "(select "+before+" "+sr+")"))
			}
		} else {
			d := u.leafAddr("(sla "+rn+" (+ "+sl+" j))", elemT, l.path)
			sr := u.leafAddr(u.sla(t, "j"), elemT, l.path)
			tr.fact(fmt.Sprintf("(forall ((j Int)) (! (=> (and (<= 0 j) (< j %s)) (= (select %s %s) (select %s %s))) :pattern ((sla %s j))))", tl, now, d, before, sr, slTermName(t)))
		}
	}
	return out
}

func slTermName(v *Val) string { return v.E() }

// addrTag names the partition of the cell a pointer value designates when it is a leaf cell.
func (fc *fctx) addrTag(v ssa.Value) string {
	switch x := v.(type) {
	case *ssa.FieldAddr:
		st := x.X.Type().Underlying().(*types.Pointer).Elem()
		s, _ := structOf(st)
		sname := fc.tr.u.sortOf(st)
		return sname[2:] + "_" + sanitize(s.Field(x.Field).Name())
	case *ssa.IndexAddr:
		return "elem"
	case *ssa.ChangeType:
		return fc.addrTag(x.X)
	case *ssa.Alloc, *ssa.Global:
		return "cell"
	}
	// a pointer received as an argument (inlined call) keeps the partition of the cell the caller designated
	if vs, ok := fc.vals[v]; ok && len(vs) == 1 && vs[0].Tag != "" {
		return vs[0].Tag
	}
	// a pointer of unknown origin to a leaf value: pointers stored in the document model designate
	// stand-alone variables (never the middle of a struct or a slice element)
	if _, isStruct := structOf(v.Type().Underlying().(*types.Pointer).Elem()); isStruct == "" {
		if st, _ := structOf(v.Type().Underlying().(*types.Pointer).Elem()); st == nil {
			fc.tr.trusted["pointers to non-struct values that are loaded or received designate stand-alone variables, not struct fields or slice elements"] = true
		}
	}
	return "cell"
}
