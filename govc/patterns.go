package main

// Trigger inference for quantified contract formulas.

import (
	"sort"
	"strings"
)

type sx struct {
	atom string
	kids []*sx
	src  string
}

func parseSx(s string) *sx {
	pos := 0
	var rec func() *sx
	skip := func() {
		for pos < len(s) && (s[pos] == ' ' || s[pos] == '\n' || s[pos] == '\t') {
			pos++
		}
	}
	rec = func() *sx {
		skip()
		start := pos
		if pos < len(s) && s[pos] == '(' {
			pos++
			n := &sx{}
			for {
				skip()
				if pos >= len(s) {
					break
				}
				if s[pos] == ')' {
					pos++
					break
				}
				n.kids = append(n.kids, rec())
			}
			n.src = s[start:pos]
			return n
		}
		if pos < len(s) && s[pos] == '"' {
			pos++
			for pos < len(s) {
				if s[pos] == '"' {
					if pos+1 < len(s) && s[pos+1] == '"' {
						pos += 2
						continue
					}
					pos++
					break
				}
				pos++
			}
			return &sx{atom: s[start:pos], src: s[start:pos]}
		}
		for pos < len(s) && s[pos] != ' ' && s[pos] != '(' && s[pos] != ')' && s[pos] != '\n' {
			pos++
		}
		return &sx{atom: s[start:pos], src: s[start:pos]}
	}
	return rec()
}

var badHeads = map[string]bool{"and": true, "or": true, "not": true, "=>": true, "=": true, "ite": true, "<": true, "<=": true, ">": true, ">=": true,
	"+": true, "-": true, "*": true, "div": true, "mod": true, "/": true, "forall": true, "exists": true, "let": true, "distinct": true, "!": true,
	"store": true, "to_real": true, "as": true}

// heads that occur on almost every address term: useless (and explosive) as triggers
var weakHeads = map[string]bool{"obase": true, "ftag": true, "fbase": true, "eidx": true}

func (n *sx) head() string {
	if len(n.kids) > 0 && n.kids[0].atom != "" {
		return n.kids[0].atom
	}
	return ""
}

// clean: usable inside a trigger (no interpreted arithmetic / boolean structure)
func (n *sx) clean() bool {
	if n.atom != "" {
		return true
	}
	h := n.head()
	if h == "" || badHeads[h] || strings.HasPrefix(h, "str.") {
		return false
	}
	for _, k := range n.kids[1:] {
		if !k.clean() {
			return false
		}
	}
	return true
}

func (n *sx) vars(bound map[string]bool, out map[string]bool) {
	if n.atom != "" {
		if bound[n.atom] {
			out[n.atom] = true
		}
		return
	}
	for _, k := range n.kids {
		k.vars(bound, out)
	}
}

func inferPatterns(body string, names []string) []string {
	bound := map[string]bool{}
	for _, n := range names {
		bound[n] = true
	}
	root := parseSx(body)
	type cand struct {
		src  string
		vars map[string]bool
		size int
	}
	var cands []cand
	seen := map[string]bool{}
	var walk func(n *sx)
	walk = func(n *sx) {
		if n.atom != "" {
			return
		}
		h := n.head()
		if h == "forall" || h == "exists" {
			return
		}
		if n.clean() && len(n.kids) > 1 && !weakHeads[h] {
			vs := map[string]bool{}
			n.vars(bound, vs)
			if len(vs) > 0 && !seen[n.src] {
				seen[n.src] = true
				cands = append(cands, cand{n.src, vs, len(n.src)})
			}
		}
		for _, k := range n.kids {
			walk(k)
		}
	}
	walk(root)
	if len(cands) == 0 {
		return nil
	}
	sort.Slice(cands, func(i, j int) bool { return cands[i].size < cands[j].size })
	// matching-loop guard: a candidate (h ...) is dropped when the body contains a larger term with the same
	// head that mentions bound variables (instantiating would create a new match of the candidate); the larger
	// term is used instead
	heads := map[string][]int{}
	headOf := func(src string) string {
		t := strings.TrimPrefix(src, "(")
		if i := strings.IndexAny(t, " )"); i >= 0 {
			return t[:i]
		}
		return t
	}
	for i, c := range cands {
		heads[headOf(c.src)] = append(heads[headOf(c.src)], i)
	}
	drop := map[int]bool{}
	for _, idxs := range heads {
		if len(idxs) < 2 || strings.HasPrefix(headOf(cands[idxs[0]].src), "select") || strings.HasPrefix(headOf(cands[idxs[0]].src), "fa_") || headOf(cands[idxs[0]].src) == "ea" || headOf(cands[idxs[0]].src) == "sla" {
			continue
		}
		// keep only the largest terms of this head
		max := 0
		for _, i := range idxs {
			if cands[i].size > max {
				max = cands[i].size
			}
		}
		for _, i := range idxs {
			if cands[i].size < max {
				drop[i] = true
			}
		}
	}
	if len(drop) > 0 {
		var kept []cand
		for i, c := range cands {
			if !drop[i] {
				kept = append(kept, c)
			}
		}
		cands = kept
	}
	// single terms covering everything, minimal ones first
	var full []string
	for _, c := range cands {
		if len(c.vars) == len(names) {
			sub := false
			for _, f := range full {
				if strings.Contains(c.src, f) {
					sub = true
				}
			}
			if !sub {
				full = append(full, "("+c.src+")")
			}
		}
		if len(full) >= 6 {
			break
		}
	}
	if len(full) > 0 {
		return full
	}
	// greedy multi-pattern
	need := map[string]bool{}
	for _, n := range names {
		need[n] = true
	}
	var parts []string
	for len(need) > 0 {
		best := -1
		bestGain := 0
		for i, c := range cands {
			g := 0
			for v := range c.vars {
				if need[v] {
					g++
				}
			}
			if g > bestGain {
				best, bestGain = i, g
			}
		}
		if best < 0 {
			return nil
		}
		parts = append(parts, cands[best].src)
		for v := range cands[best].vars {
			delete(need, v)
		}
	}
	return []string{"(" + strings.Join(parts, " ") + ")"}
}

// splitGoal splits a goal of the shape  H1 => (H2 => (and c1 ... cn))  into n goals  H1 => (H2 => ci)  when n is
// large: each conjunct becomes an obligation of its own (small queries instead of one that times out).
func splitGoal(g string, min int) []string {
	root := parseSx(g)
	var hyps []string
	cur := root
	for cur.atom == "" && len(cur.kids) == 3 && cur.kids[0].atom == "=>" {
		hyps = append(hyps, cur.kids[1].src)
		cur = cur.kids[2]
	}
	if cur.atom != "" || len(cur.kids) < 1+min || cur.kids[0].atom != "and" {
		return []string{g}
	}
	var out []string
	for _, c := range cur.kids[1:] {
		t := c.src
		for i := len(hyps) - 1; i >= 0; i-- {
			t = "(=> " + hyps[i] + " " + t + ")"
		}
		out = append(out, t)
	}
	return out
}
