package main

import (
	"encoding/json"
	"flag"
	"fmt"
	"os"
	"path/filepath"
	"runtime/pprof"
	"sort"
	"strconv"
	"strings"
	"time"

	"golang.org/x/tools/go/packages"
	"golang.org/x/tools/go/ssa"
	"golang.org/x/tools/go/ssa/ssautil"
)

type loaded struct {
	prog      *ssa.Program
	spkg      *ssa.Package
	pkg       *packages.Package
	contracts *Contracts
	funcs     map[string]*ssa.Function
}

var repoDir = "/repo"

func load(repo string) (*loaded, error) {
	repoDir = repo
	cfg := &packages.Config{Mode: packages.LoadAllSyntax, Dir: repo, BuildFlags: []string{"-tags=verif"},
		Env: append(os.Environ(), "GOFLAGS=-mod=mod", "GOPROXY=off", "GOSUMDB=off", "GOTOOLCHAIN=local")}
	pkgs, err := packages.Load(cfg, ".")
	if err != nil {
		return nil, err
	}
	if len(pkgs) != 1 {
		return nil, fmt.Errorf("expected one package, got %d", len(pkgs))
	}
	if len(pkgs[0].Errors) > 0 {
		return nil, fmt.Errorf("package errors: %v", pkgs[0].Errors)
	}
	prog, spkgs := ssautil.AllPackages(pkgs, ssa.GlobalDebug)
	prog.Build()
	for _, p := range prog.AllPackages() {
		registerStructs(p.Pkg)
	}
	l := &loaded{prog: prog, spkg: spkgs[0], pkg: pkgs[0], funcs: map[string]*ssa.Function{}}
	for fn := range ssautil.AllFunctions(prog) {
		if fn.Pkg == l.spkg || (fn.Pkg == nil && fn.Parent() != nil && fn.Parent().Pkg == l.spkg) {
			l.funcs[fnKey(fn)] = fn
		} else if fn.Pkg == nil && fn.Synthetic != "" {
			// wrappers are keyed too (rarely needed)
			if _, ok := l.funcs[fnKey(fn)]; !ok {
				l.funcs[fnKey(fn)] = fn
			}
		}
	}
	allFuncs = l.funcs
	pkgSyntax = pkgs[0].Syntax
	c, err := loadContracts(filepath.Join(repo, "verif_contracts.go"))
	if err != nil {
		return nil, err
	}
	l.contracts = c
	return l, nil
}

func hasProp(props []string, p string) bool {
	for _, x := range props {
		if x == p {
			return true
		}
	}
	return false
}

func contractMentions(c *FuncContract, prop string) bool {
	if hasProp(c.Props, prop) {
		return true
	}
	for _, cl := range c.Clauses {
		if hasProp(cl.Props, prop) {
			return true
		}
	}
	return false
}

func main() {
	repo := flag.String("repo", "/repo", "repository")
	prop := flag.String("prop", "", "property id")
	tier := flag.String("tier", "quick", "quick|thorough")
	fnFlag := flag.String("fn", "", "verify a single function (debug)")
	work := flag.String("work", "/verif/work", "scratch directory for SMT files")
	evidence := flag.String("evidence", "", "evidence file to write")
	verbose := flag.Bool("v", false, "verbose")
	sweep := flag.Bool("sweep", false, "translate every package function (debug)")
	frameDbg := flag.String("frame", "", "run the FRAME analysis from one entry point and dump write events (debug)")
	flag.Parse()
	t0 := time.Now()
	seed, _ := strconv.Atoi(os.Getenv("VERIF_SEED"))
	l, err := load(*repo)
	if err != nil {
		fmt.Fprintln(os.Stderr, "govc: load failed:", err)
		os.Exit(2)
	}
	timeout := 90
	if *tier == "thorough" {
		timeout = 180
	}
	if v, err := strconv.Atoi(os.Getenv("GOVC_TIMEOUT")); err == nil && v > 0 {
		timeout = v // debugging aid
	}
	if *fnFlag != "" {
		fn := l.funcs[*fnFlag]
		if fn == nil {
			fmt.Fprintln(os.Stderr, "no such function; known:")
			var ks []string
			for k := range l.funcs {
				ks = append(ks, k)
			}
			sort.Strings(ks)
			for _, k := range ks {
				fmt.Fprintln(os.Stderr, "  ", k)
			}
			os.Exit(2)
		}
		if os.Getenv("GOVC_DUMPSSA") != "" {
			fn.WriteTo(os.Stderr)
		}
		r := verifyFunc(l.prog, l.spkg, l.contracts, fn, l.contracts.Funcs[*fnFlag], verifyOpts{})
		dir := filepath.Join(*work, "fn")
		os.RemoveAll(dir)
		dischargeAll(r.Obls, dir, timeout, 14)
		if os.Getenv("GOVC_FACTS") != "" {
			for _, o := range r.Obls {
				if o.Status != "proved" {
					fmt.Printf("--- %s: %d facts\n", o.Name, o.NFacts)
				}
			}
		}
		printResult(r, true)
		return
	}
	if *frameDbg != "" {
		if pf := os.Getenv("GOVC_PROF"); pf != "" {
			f, _ := os.Create(pf)
			pprof.StartCPUProfile(f)
			go func() { time.Sleep(25 * time.Second); pprof.StopCPUProfile(); f.Close(); os.Exit(3) }()
		}
		t := time.Now()
		r := runFrame(l, *frameDbg)
		fmt.Printf("functions reached: %d, write events: %d, cells: %d, iterations %d, %.2fs\n", len(r.a.reach), len(r.a.writes), len(r.a.content), r.a.iters, time.Since(t).Seconds())
		if dbg := os.Getenv("GOVC_PTS"); dbg != "" {
			for _, name := range strings.Split(dbg, ",") {
				f := l.funcs[name]
				if f == nil {
					continue
				}
				for _, p := range f.Params {
					fmt.Printf("pts(%s.%s) = %v\n", name, p.Name(), keysOf(r.a.get(p)))
				}
				for i, rs := range r.a.rets[f] {
					fmt.Printf("ret(%s)#%d = %v\n", name, i, keysOf(rs))
				}
				for _, b := range f.Blocks {
					for _, ins := range b.Instrs {
						if v, ok := ins.(ssa.Value); ok && len(r.a.get(v)) > 0 {
							fmt.Printf("   %s = %s : %v\n", v.Name(), ins.String(), keysOf(r.a.get(v)))
						}
					}
				}
			}
			return
		}
		for _, o := range r.offending(func(c string) bool { return true }, nil) {
			fmt.Println(" ", o)
		}
		return
	}
	if *sweep {
		var ks []string
		for k, fn := range l.funcs {
			if fn.Pkg == l.spkg || fn.Parent() != nil {
				ks = append(ks, k)
			}
		}
		sort.Strings(ks)
		nob := 0
		for _, k := range ks {
			fn := l.funcs[k]
			if len(fn.Blocks) == 0 {
				continue
			}
			r := verifyFunc(l.prog, l.spkg, l.contracts, fn, l.contracts.Funcs[k], verifyOpts{autoRecvNonNil: true})
			nob += len(r.Obls)
			fmt.Printf("%-60s obls=%d unsup=%s warnings=%d\n", k, len(r.Obls), r.Unsup, len(r.Warnings))
		}
		fmt.Println("total obligations", nob)
		return
	}
	if *prop == "" {
		fmt.Fprintln(os.Stderr, "govc: -prop or -fn required")
		os.Exit(2)
	}
	run := runProperty(l, *prop, *tier, timeout, filepath.Join(*work, *prop), *verbose)
	run.Seed = seed
	run.Wall = time.Since(t0).Seconds()
	code := run.report()
	if *evidence != "" {
		if err := writeEvidence(run, *evidence); err != nil {
			fmt.Fprintln(os.Stderr, "govc: evidence:", err)
			os.Exit(2)
		}
	}
	os.Exit(code)
}

func printResult(r *FuncResult, verbose bool) {
	if r.Unsup != "" {
		fmt.Printf("FUNC %s: OUT OF SUBSET: %s\n", r.Key, r.Unsup)
	}
	for _, w := range r.Warnings {
		fmt.Printf("  warning: %s\n", w)
	}
	for _, o := range r.Obls {
		if verbose || o.Status != "proved" {
			fmt.Printf("  %-8s %-70s %s %.2fs %s\n", o.Status, o.Name, o.Solver, o.Time, o.Pos)
			if o.Status != "proved" && o.Src != "" {
				fmt.Printf("           clause: %s\n", o.Src)
			}
		}
	}
}

// ---------------------------------------------------------------------------

type PropRun struct {
	Prop      string
	Tier      string
	Seed      int
	Wall      float64
	Funcs     []*FuncResult
	Extra     []*Obligation // obligations from other back ends (FRAME, lemmas)
	Notes     []string
	Trusted   map[string]bool
	Bounded   []string
	WorkDir   string
	Known     []knownHit
	Failures  []*Obligation
	Repo      string
	KnownHits []string
}

type knownHit struct {
	Line string
}

func (p *PropRun) all() []*Obligation {
	var out []*Obligation
	for _, f := range p.Funcs {
		for _, o := range f.Obls {
			if hasProp(o.Props, p.Prop) {
				out = append(out, o)
			}
		}
	}
	out = append(out, p.Extra...)
	return out
}

func runProperty(l *loaded, prop, tier string, timeout int, work string, verbose bool) *PropRun {
	run := &PropRun{Prop: prop, Tier: tier, Trusted: map[string]bool{}, WorkDir: work, Repo: "/repo"}
	os.RemoveAll(work)
	os.MkdirAll(work, 0o755)
	var keys []string
	for _, k := range l.contracts.Order {
		if contractMentions(l.contracts.Funcs[k], prop) {
			keys = append(keys, k)
		}
	}
	var obls []*Obligation
	// the functions tagged with the property, then - transitively - every in-package function whose contract one of them
	// relied on (a modular call or a `uses` law): its clauses were assumed there, so all its obligations count here too
	done := map[string]bool{}
	inherited := map[string]bool{}
	queue := append([]string{}, keys...)
	for len(queue) > 0 {
		k := queue[0]
		queue = queue[1:]
		if done[k] {
			continue
		}
		done[k] = true
		c := l.contracts.Funcs[k]
		if c == nil {
			continue
		}
		if c.Trusted {
			run.Trusted["assumed contract (body not verified): "+k+" — "+c.Why] = true
			continue
		}
		fn := l.funcs[k]
		if fn == nil {
			// contract for a function that no longer exists: the contract cannot bind
			o := &Obligation{Name: "bind/" + k, Kind: "bind", Fn: k, Props: []string{prop}, Status: "failed", Src: "contract names a function that does not exist in /repo"}
			run.Extra = append(run.Extra, o)
			continue
		}
		r := verifyFunc(l.prog, l.spkg, l.contracts, fn, c, verifyOpts{})
		run.Funcs = append(run.Funcs, r)
		for _, t := range r.Trusted {
			run.Trusted[t] = true
		}
		if r.Unsup != "" {
			o := &Obligation{Name: "subset/" + k, Kind: "subset", Fn: k, Props: []string{prop}, Status: "unknown", Src: "function left the supported subset: " + r.Unsup}
			run.Extra = append(run.Extra, o)
		}
		if os.Getenv("GOVC_NOCLOSURE") == "" {
			for _, u := range r.Used {
				{
					// a callee's contract is assumed as a whole at the call site, so all its clauses count for this
					// property, whether or not some of them are tagged with it (GOVC_TAGGEDONLY=1 restores the old,
					// smaller runs where a callee that mentions the property contributes its tagged clauses only)
					if !contractMentions(l.contracts.Funcs[u], prop) || inherited[k] || os.Getenv("GOVC_TAGGEDONLY") == "" {
						inherited[u] = true
					}
					if !done[u] {
						queue = append(queue, u)
					}
				}
			}
		}
	}
	// second pass (the inherited flags are complete now, whatever the order in which functions were met)
	for _, r := range run.Funcs {
		for _, o := range r.Obls {
			if inherited[r.Key] && !hasProp(o.Props, prop) {
				o.Props = append(append([]string{}, o.Props...), prop)
				o.Inherited = true
			}
			if hasProp(o.Props, prop) {
				obls = append(obls, o)
			}
		}
	}
	// property-specific additional back ends
	runExtras(l, run, prop, tier)
	dischargeAll(obls, work, timeout, 14)
	if tier == "thorough" {
		agree, silent, conflicts := crossCheck(obls, work, 14)
		run.Notes = append(run.Notes, fmt.Sprintf("thorough tier cross-check: of the obligations proved by the first solver, %d were confirmed unsat by a second solver (z3 4.8.12 or cvc5 1.0) within 20 s, %d got no definite second answer, %d contradicted", agree, silent, conflicts))
	}
	if verbose {
		for _, r := range run.Funcs {
			printResult(r, true)
		}
	}
	return run
}

// report prints the verdict lines and returns the exit code.
func (p *PropRun) report() int {
	all := p.all()
	nproved := 0
	var bad []*Obligation
	for _, o := range all {
		if o.Status == "proved" {
			nproved++
		} else {
			bad = append(bad, o)
		}
	}
	fmt.Printf("property %s tier=%s: %d obligations, %d discharged, %d functions under contract, %.1fs\n", p.Prop, p.Tier, len(all), nproved, len(p.Funcs), p.Wall)
	if len(all) == 0 {
		fmt.Printf("VIOLATION property=%s replay=%s no-failing-input-found\n", p.Prop, p.writeReplay(&Obligation{Name: "vacuity/no-obligations", Src: "no obligation was generated for this property: the contracts no longer bind to the code"}))
		return 1
	}
	ff := loadFindings()
	exit := 0
	reported := map[string]bool{}
	for _, o := range bad {
		// known finding?
		var hit *Finding
		for i := range ff.Findings {
			f := &ff.Findings[i]
			if (f.appliesTo(p.Prop) || o.Inherited) && f.Obligation == baseOblName(o.Name) {
				hit = f
			}
		}
		if hit != nil {
			if reported[hit.Obligation] {
				continue
			}
			reported[hit.Obligation] = true
			note := ""
			if hit.Witness != "" {
				failed, built, out := witnessStatus(p.Repo, filepath.Join("/verif/findings", hit.Witness), hit.Run)
				switch {
				case !built:
					note = " [witness could not be built: " + firstLine(out) + "]"
				case failed:
					note = " [witness replayed on the real code: still fails]"
				default:
					note = " [STALE: the recorded witness no longer fails on this tree]"
				}
			}
			fmt.Printf("KNOWN-FINDING: property=%s %s: %s%s\n", p.Prop, hit.Obligation, hit.What, note)
			p.KnownHits = append(p.KnownHits, hit.Obligation)
			continue
		}
		path := p.writeReplay(o)
		suffix := " no-failing-input-found"
		if o.replayConfirmed {
			suffix = ""
		}
		fmt.Printf("  %s %s (%s) %s\n", o.Status, o.Name, o.Pos, o.Src)
		fmt.Printf("VIOLATION property=%s replay=%s%s\n", p.Prop, path, suffix)
		exit = 1
	}
	return exit
}

func firstLine(s string) string {
	if i := strings.Index(s, "\n"); i >= 0 {
		return s[:i]
	}
	return s
}

func (p *PropRun) writeReplay(o *Obligation) string {
	dir := filepath.Join("/verif/replays", p.Prop)
	os.MkdirAll(dir, 0o755)
	path := filepath.Join(dir, sanitize(o.Name)+".txt")
	var sb strings.Builder
	fmt.Fprintf(&sb, "property: %s\nobligation: %s\nkind: %s\nfunction: %s\nposition: %s\nstatus: %s (solver %s, %.2fs, limit %ds per stage)\nclause: %s\n", p.Prop, o.Name, o.Kind, o.Fn, o.Pos, o.Status, o.Solver, o.Time, o.limit, o.Src)
	if o.replayNote != "" {
		fmt.Fprintf(&sb, "replay: %s\n", o.replayNote)
	}
	fmt.Fprintf(&sb, "\n--- solver output ---\n%s\n", truncate(o.Model, 20000))
	os.WriteFile(path, []byte(sb.String()), 0o644)
	return path
}

func truncate(s string, n int) string {
	if len(s) > n {
		return s[:n] + "\n...[truncated]"
	}
	return s
}

func writeEvidence(p *PropRun, path string) error {
	var all []*Obligation
	var knownObls []string
	for _, o := range p.all() {
		if o.Kind == "bounded" {
			continue // bounded stand-ins are listed separately and never counted as discharged obligations
		}
		isKnown := false
		for _, k := range p.KnownHits {
			if o.Status != "proved" && baseOblName(o.Name) == k {
				isKnown = true
			}
		}
		if isKnown {
			knownObls = append(knownObls, o.Name)
			continue
		}
		all = append(all, o)
	}
	nproved := 0
	solverTime := 0.0
	bySolver := map[string]int{}
	byKind := map[string]int{}
	var samples []interface{}
	for _, o := range all {
		if o.Status == "proved" {
			nproved++
		}
		solverTime += o.Time
		bySolver[o.Solver]++
		byKind[o.Kind]++
	}
	sort.Slice(all, func(i, j int) bool { return all[i].Name < all[j].Name })
	for i, o := range all {
		if i%((len(all)/8)+1) == 0 {
			samples = append(samples, map[string]interface{}{"obligation": o.Name, "kind": o.Kind, "clause": o.Src, "status": o.Status, "solver": o.Solver, "time_s": round3(o.Time), "position": o.Pos})
		}
	}
	var fns []string
	var unsup []string
	for _, f := range p.Funcs {
		fns = append(fns, f.Key)
		if f.Unsup != "" {
			unsup = append(unsup, f.Key+": "+f.Unsup)
		}
	}
	var trusted []string
	for k := range p.Trusted {
		trusted = append(trusted, k)
	}
	sort.Strings(trusted)
	var oblList []interface{}
	for _, o := range all {
		oblList = append(oblList, map[string]interface{}{"name": o.Name, "status": o.Status, "solver": o.Solver, "time_s": round3(o.Time)})
	}
	violations := len(all) - nproved
	ev := map[string]interface{}{
		"property_id": p.Prop,
		"tier":        p.Tier,
		"seed":        p.Seed,
		"level":       "proof",
		"coverage": map[string]interface{}{
			"obligations":               len(all),
			"discharged":                nproved,
			"checker_cmd":               fmt.Sprintf("/verif/bin/govc -repo /repo -prop %s -tier %s (VCs from go/ssa of the working tree + /repo/verif_contracts.go; z3-new 5.1.0 first, z3 4.8.12 and cvc5 1.0 raced on unknown)", p.Prop, p.Tier),
			"trusted_base":              trusted,
			"functions_under_contract":  fns,
			"functions_out_of_subset":   unsup,
			"obligations_by_kind":       byKind,
			"obligations_by_solver":     bySolver,
			"solver_time_s":             round3(solverTime),
			"samples":                   samples,
			"obligation_list":           oblList,
			"bounded_stand_ins":         p.Bounded,
			"known_finding_obligations": knownObls,
			"notes":                     p.Notes,
		},
		"assumptions": append([]string{
			"integers are mathematical (no overflow obligations); floats are reals; strings are SMT strings (valid Unicode)",
			"panics are obligations, not control flow; recover() returns nil on modelled paths",
			"soundness of the VC generator itself (go/ssa translation, heap model) and of the SMT solvers",
		}, trusted...),
		"wall_s":     round3(p.Wall),
		"violations": violations,
	}
	os.MkdirAll(filepath.Dir(path), 0o755)
	b, _ := json.MarshalIndent(ev, "", " ")
	return os.WriteFile(path, b, 0o644)
}

func round3(f float64) float64 { return float64(int(f*1000+0.5)) / 1000 }

func keysOf(s cellSet) []string {
	var out []string
	for k := range s {
		out = append(out, k)
	}
	sort.Strings(out)
	return out
}
