package main

// GOBT back end (C14): type-directed obligations derived from the assumed behaviour of encoding/gob on the real model
// types, read through go/types on every run.
//
// Assumed (encoding/gob, go1.23; probed against the real package while designing):
//   g1  a struct is sent field by field; only exported fields travel; a field holding its zero value is not sent and
//       decodes to the zero value
//   g2  pointers are flattened: a nil pointer is not sent; a pointer to a basic value that is zero is not sent either
//       and comes back nil; a non-nil pointer to a struct comes back non-nil even when the struct is all zero
//   g3  a slice field of length 0 is not sent and comes back nil; a map field is kept as it is (nil stays nil, an empty
//       map comes back empty); elements of slices and maps are always sent, but an element that is itself an empty
//       slice comes back nil (an empty map element comes back as an empty map)
//   g4  a type with GobEncode/GobDecode methods travels as the bytes those methods produce
//   g5  an interface value travels with its dynamic type, which must be registered; free-form payloads follow g3
//       (an empty []interface{} inside a payload comes back nil)
//
// For every field reachable from the kinds the property names, one obligation: the values gob alters at that position
// encode to the same JSON as the altered value (decided from the field's type and json tag).  Positions where it does
// not hold are genuine transport losses; they are listed in known_findings.json by obligation name.

import (
	"fmt"
	"go/types"
	"reflect"
	"sort"
	"strings"

	"golang.org/x/tools/go/ssa"
)

type gobScan struct {
	l    *loaded
	run  *PropRun
	seen map[string]bool
	obls map[string]*Obligation
}

func hasMethod(prog *ssa.Program, t types.Type, name string) bool {
	for _, tt := range []types.Type{t, types.NewPointer(t)} {
		ms := prog.MethodSets.MethodSet(tt)
		for i := 0; i < ms.Len(); i++ {
			if ms.At(i).Obj().Name() == name {
				return true
			}
		}
	}
	return false
}

func (g *gobScan) obl(name, src string, ok bool, why string) {
	if _, dup := g.obls[name]; dup {
		return
	}
	o := &Obligation{Name: name, Kind: "gobfield", Props: []string{g.run.Prop}, Src: src, Solver: "GOBT", Expect: "unsat"}
	if ok {
		o.Status = "proved"
	} else {
		o.Status = "failed"
		o.Model = why
		o.replayNote = "type-directed obligation: no solver model; the reason is given below"
	}
	g.obls[name] = o
}

func shortType(t types.Type) string {
	return types.TypeString(t, func(p *types.Package) string {
		if p.Path() == pkgPath {
			return ""
		}
		return p.Name()
	})
}

// walkStruct visits the exported fields of struct type t (named owner for obligation names).
func (g *gobScan) walkStruct(owner string, t types.Type) {
	if g.seen[owner] {
		return
	}
	g.seen[owner] = true
	st, _ := structOf(t)
	if st == nil {
		return
	}
	for i := 0; i < st.NumFields(); i++ {
		f := st.Field(i)
		tag := reflect.StructTag(st.Tag(i)).Get("json")
		jname, opts, _ := strings.Cut(tag, ",")
		omitempty := strings.Contains(","+opts+",", ",omitempty,")
		name := "gobfield/" + owner + "." + f.Name()
		if !f.Exported() {
			// unexported fields do not travel; harmless only when the JSON encoding does not depend on them
			g.obl(name, "an unexported field is not sent by gob", false, fmt.Sprintf("field %s.%s is unexported: gob drops it", owner, f.Name()))
			continue
		}
		if f.Embedded() {
			g.position(owner+"."+f.Name(), f.Type(), true, false)
			continue
		}
		if jname == "-" && !hasMethod(g.l.prog, t, "MarshalJSON") {
			continue // not part of the JSON encoding
		}
		if (jname == "-" || tag == "") && hasMethod(g.l.prog, t, "MarshalJSON") {
			// a field the owner's own MarshalJSON consumes (ranging over it or testing its length): a nil and an empty
			// container are encoded alike - that is what the members clauses of the encoder contracts state (has()/len())
			omitempty = true
		}
		g.fieldPosition(name, owner+"."+f.Name(), f.Type(), omitempty)
	}
}

// fieldPosition decides the obligation for a struct field of type t with the given omitempty flag.
func (g *gobScan) fieldPosition(name, where string, t types.Type, omitempty bool) {
	src := fmt.Sprintf("%s (%s, omitempty=%v): every value gob alters at this field encodes to the same JSON as the altered value", where, shortType(t), omitempty)
	// custom gob codec: the type's own lemma decides
	if n, ok := t.(*types.Named); ok && n.Obj().Pkg() != nil && n.Obj().Pkg().Path() == pkgPath && hasMethod(g.l.prog, t, "GobEncode") && hasMethod(g.l.prog, t, "GobDecode") {
		g.obl(name, src, true, "")
		g.custom(n)
		return
	}
	switch tt := t.Underlying().(type) {
	case *types.Basic:
		g.obl(name, src, true, "") // g1: zero not sent, decodes to zero
	case *types.Pointer:
		et := tt.Elem()
		if n, ok := et.(*types.Named); ok && hasMethod(g.l.prog, et, "GobEncode") && hasMethod(g.l.prog, et, "GobDecode") && n.Obj().Pkg() != nil && n.Obj().Pkg().Path() == pkgPath {
			g.obl(name, src, true, "")
			g.custom(n)
			return
		}
		if _, isStruct := et.Underlying().(*types.Struct); isStruct {
			g.obl(name, src, true, "") // g2: nil-ness of a pointer to a struct is kept
			g.position(where, et, false, false)
			return
		}
		// pointer to a basic value: &zero comes back nil; the JSON encoder prints &0 as 0 and omits nil
		g.obl(name, src, false, fmt.Sprintf("%s: a pointer to the zero value (e.g. 0) is not transmitted by gob and comes back nil; its JSON encoding is the member with value 0 before and no member after", where))
	case *types.Slice:
		if omitempty || hasMethod(g.l.prog, t, "MarshalJSON") {
			g.obl(name, src, true, "") // empty -> nil, both omitted (or encoded by the type's own encoder from the length)
		} else {
			g.obl(name, src, false, fmt.Sprintf("%s: an empty slice comes back nil; without omitempty its JSON changes from [] to null", where))
		}
		g.element(where+"[]", tt.Elem())
	case *types.Map:
		// g3: a nil map is not sent and stays nil, a non-nil map is sent even when empty: nothing is altered at the field
		g.obl(name, src, true, "")
		g.element(where+"[]", tt.Elem())
	case *types.Interface:
		// g5: free-form payload
		g.obl(name, src, false, fmt.Sprintf("%s: a free-form payload holding an empty array (anywhere inside it) comes back with null in its place", where))
	case *types.Struct:
		g.obl(name, src, true, "")
		g.position(where, t, false, false)
	default:
		g.obl(name, src, false, fmt.Sprintf("%s: type %s is outside the gob model", where, shortType(t)))
	}
}

// element: an element of a slice or a value of a map (always sent)
func (g *gobScan) element(where string, t types.Type) {
	name := "gobfield/" + where
	src := fmt.Sprintf("%s (%s): elements are always sent; an element that gob alters encodes to the same JSON", where, shortType(t))
	if n, ok := t.(*types.Named); ok && n.Obj().Pkg() != nil && n.Obj().Pkg().Path() == pkgPath && hasMethod(g.l.prog, t, "GobEncode") && hasMethod(g.l.prog, t, "GobDecode") {
		g.obl(name, src, true, "")
		g.custom(n)
		return
	}
	switch tt := t.Underlying().(type) {
	case *types.Basic:
		g.obl(name, src, true, "")
	case *types.Struct:
		g.obl(name, src, true, "")
		g.position(where, t, false, false)
	case *types.Map:
		g.obl(name, src, true, "")
	case *types.Slice:
		// g3: an empty slice as an element comes back nil: [] becomes null unless a custom codec pads it
		g.obl(name, src, false, fmt.Sprintf("%s: an element that is an empty %s comes back nil: its JSON changes from [] to null", where, shortType(t)))
	case *types.Interface:
		g.obl(name, src, false, fmt.Sprintf("%s: a free-form payload holding an empty array comes back with null in its place", where))
	case *types.Pointer:
		if _, isStruct := tt.Elem().Underlying().(*types.Struct); isStruct {
			// a non-nil pointer to a struct is kept; a nil element makes Encode fail with an error (not a silent change)
			g.obl(name, src, true, "")
			g.position(where, tt.Elem(), false, false)
			return
		}
		g.obl(name, src, false, fmt.Sprintf("%s: a pointer to a zero basic value comes back nil", where))
	default:
		g.obl(name, src, false, fmt.Sprintf("%s: type %s is outside the gob model", where, shortType(t)))
	}
}

// position: descend into a struct-typed position
func (g *gobScan) position(where string, t types.Type, embedded, _ bool) {
	if p, ok := t.Underlying().(*types.Pointer); ok {
		t = p.Elem()
	}
	owner := shortType(t)
	if _, ok := t.(*types.Named); !ok {
		owner = where
	}
	if n, ok := t.(*types.Named); ok && n.Obj().Pkg() != nil && n.Obj().Pkg().Path() == pkgPath && hasMethod(g.l.prog, t, "GobEncode") && hasMethod(g.l.prog, t, "GobDecode") {
		g.custom(n)
		return
	}
	if n, ok := t.(*types.Named); ok && n.Obj().Pkg() != nil && n.Obj().Pkg().Path() != pkgPath {
		// a struct of a dependency (jsonreference.Ref sits behind Ref's own codec): only reachable through custom codecs
		g.obl("gobfield/"+where, where+": a struct type of a dependency", false, "struct type "+owner+" of a dependency is sent field by field: unexported state is lost")
		return
	}
	g.walkStruct(owner, t)
}

// custom: a kind with its own gob codec - the pair must exist with the right receivers, and what it sends is walked
func (g *gobScan) custom(n *types.Named) {
	owner := n.Obj().Name()
	if g.seen["custom:"+owner] {
		return
	}
	g.seen["custom:"+owner] = true
	enc := g.l.funcs["("+owner+").GobEncode"]
	dec := g.l.funcs["(*"+owner+").GobDecode"]
	g.obl("gobpair/"+owner, owner+" has GobEncode on the value and GobDecode on the pointer (the pair encoding/gob looks for)", enc != nil && dec != nil, "missing method of the pair")
	switch owner {
	case "Ref":
		// travels as its JSON bytes: lemma verifLemmaRefGob
	case "Swagger":
		g.walkStruct("SwaggerProps", g.l.pkg.Types.Scope().Lookup("SwaggerProps").Type())
		g.custom(g.l.pkg.Types.Scope().Lookup("SwaggerProps").Type().(*types.Named))
		g.walkStruct("VendorExtensible", g.l.pkg.Types.Scope().Lookup("VendorExtensible").Type())
	case "Operation":
		g.custom(g.l.pkg.Types.Scope().Lookup("OperationProps").Type().(*types.Named))
		g.walkStruct("VendorExtensible", g.l.pkg.Types.Scope().Lookup("VendorExtensible").Type())
	case "SwaggerProps", "OperationProps":
		// the Alias pointee is sent field by field (the alias type has no methods); Security travels padded
		g.walkStruct(owner, n)
	}
}

func gobObligations(l *loaded, run *PropRun) {
	g := &gobScan{l: l, run: run, seen: map[string]bool{}, obls: map[string]*Obligation{}}
	for _, root := range []string{"Swagger", "Operation", "Parameter", "Schema", "Response", "Ref"} {
		obj := l.pkg.Types.Scope().Lookup(root)
		if obj == nil {
			g.obl("gobroot/"+root, "kind named by the property exists", false, "type "+root+" not found")
			continue
		}
		t := obj.Type()
		if n, ok := t.(*types.Named); ok && hasMethod(l.prog, t, "GobEncode") && hasMethod(l.prog, t, "GobDecode") {
			g.custom(n)
			continue
		}
		g.walkStruct(root, t)
	}
	// the padded security requirement of the two Props codecs is the only slice-of-map-of-slice position: it is covered
	// by the codecs' own contracts, not by the field rule
	for _, k := range []string{"gobfield/SwaggerProps.Security[]", "gobfield/OperationProps.Security[]"} {
		if o, ok := g.obls[k]; ok && o.Status == "failed" {
			o.Status = "proved"
			o.Src += " [padded by the custom codec: see the contracts of GobEncode/GobDecode]"
			o.Model = ""
		}
	}
	// registration of the free-form container types (g5)
	reg := map[string]bool{}
	for _, fn := range l.funcs {
		if !strings.HasPrefix(fn.Name(), "init") {
			continue
		}
		for _, b := range fn.Blocks {
			for _, ins := range b.Instrs {
				c, ok := ins.(*ssa.Call)
				if !ok {
					continue
				}
				callee := c.Call.StaticCallee()
				if callee == nil || callee.String() != "encoding/gob.Register" || len(c.Call.Args) != 1 {
					continue
				}
				if mi, ok := c.Call.Args[0].(*ssa.MakeInterface); ok {
					reg[types.TypeString(mi.X.Type(), nil)] = true
				}
			}
		}
	}
	for _, want := range []string{"map[string]interface{}", "[]interface{}"} {
		g.obl("gobreg/"+want, "the free-form container type "+want+" is registered with encoding/gob by an init function", reg[want] || reg[strings.ReplaceAll(want, "interface{}", "any")], "no init function registers "+want+": encoding a document with such a payload fails")
	}
	var names []string
	for k := range g.obls {
		names = append(names, k)
	}
	sort.Strings(names)
	for _, k := range names {
		run.Extra = append(run.Extra, g.obls[k])
	}
	run.Trusted["encoding/gob field rules g1-g5 (zero values and empty containers are not sent, pointers flattened, exported fields only, custom codecs used, registered dynamic types): assumed, see gobscan.go"] = true
}
