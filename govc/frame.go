package main

// FRAME back end: a flow-insensitive, field-sensitive points-to / write-effect analysis over go/ssa,
// run once per entry point.  It decides frame-style obligations that need reachability ("nothing
// reachable from the root argument is written", "no package-level state is written", "the caller's
// options are not written") which the address-based assigns clauses of the SMT back end cannot state.
//
// Abstract objects are allocation sites, one summary object per entry-point parameter (everything
// reachable from the parameter at entry), one object per package-level variable and one summary object
// for values produced by unmodelled dependencies.  A cell is an object plus a field path.

import (
	"fmt"
	"go/token"
	"go/types"
	"sort"
	"strings"

	"golang.org/x/tools/go/ssa"
)

type cellSet map[string]bool

func (s cellSet) addAll(o cellSet) bool {
	ch := false
	for k := range o {
		if !s[k] {
			s[k] = true
			ch = true
		}
	}
	return ch
}

type writeEvent struct {
	fn    *ssa.Function
	pos   token.Pos
	what  string
	cells cellSet
}

type pta struct {
	l        *loaded
	pts      map[ssa.Value]cellSet
	content  map[string]cellSet
	objType  map[string]types.Type
	writes   []*writeEvent
	writeIdx map[string]*writeEvent
	reach    map[*ssa.Function]bool
	work     []*ssa.Function
	changed  bool
	extUsed  map[string]string
	summary  map[string]bool // summary objects (field-insensitive, self-contained)
	rets     map[*ssa.Function][]cellSet
	callers  map[*ssa.Function]bool
	children map[string][]string // cell -> strict descendants that have content
	iters    int
}

func newPTA(l *loaded) *pta {
	return &pta{l: l, pts: map[ssa.Value]cellSet{}, content: map[string]cellSet{}, objType: map[string]types.Type{}, writeIdx: map[string]*writeEvent{},
		reach: map[*ssa.Function]bool{}, extUsed: map[string]string{}, summary: map[string]bool{}, rets: map[*ssa.Function][]cellSet{}, children: map[string][]string{}}
}

func rootOf(cell string) string {
	if i := strings.Index(cell, "#"); i >= 0 {
		return cell[:i]
	}
	return cell
}

func (a *pta) norm(cell string) string {
	r := rootOf(cell)
	if a.summary[r] {
		return r
	}
	return cell
}

func (a *pta) addSummary(name string) {
	a.summary[name] = true
	if a.content[name] == nil {
		a.content[name] = cellSet{}
	}
	a.content[name][name] = true
}

func (a *pta) get(v ssa.Value) cellSet {
	if s, ok := a.pts[v]; ok {
		return s
	}
	switch x := v.(type) {
	case *ssa.Global:
		name := "G:" + x.Name()
		if x.Pkg != nil && x.Pkg.Pkg.Path() != pkgPath {
			name = "XG:" + x.Pkg.Pkg.Path() + "." + x.Name()
			a.addSummary(name)
		}
		s := cellSet{name: true}
		a.pts[v] = s
		return s
	case *ssa.Function:
		s := cellSet{"fn:" + fnKey(x): true}
		a.pts[v] = s
		return s
	case *ssa.Const:
		return cellSet{}
	}
	s := cellSet{}
	a.pts[v] = s
	return s
}

func (a *pta) add(v ssa.Value, s cellSet) {
	if !mayHoldPointers(v.Type(), 0) {
		return
	}
	if a.get(v).addAll(s) {
		a.changed = true
	}
}

// mayHoldPointers: can a value of this type reference mutable memory of interest?  Strings, numbers,
// booleans and error values cannot.
func mayHoldPointers(t types.Type, depth int) bool {
	if depth > 6 {
		return true
	}
	if n, ok := t.(*types.Named); ok && n.Obj().Pkg() == nil && n.Obj().Name() == "error" {
		return false
	}
	switch tt := t.Underlying().(type) {
	case *types.Basic:
		return tt.Kind() == types.UnsafePointer
	case *types.Struct:
		for i := 0; i < tt.NumFields(); i++ {
			if mayHoldPointers(tt.Field(i).Type(), depth+1) {
				return true
			}
		}
		return false
	case *types.Array:
		return mayHoldPointers(tt.Elem(), depth+1)
	case *types.Tuple:
		for i := 0; i < tt.Len(); i++ {
			if mayHoldPointers(tt.At(i).Type(), depth+1) {
				return true
			}
		}
		return false
	}
	return true
}

func (a *pta) contentOf(c string) cellSet {
	c = a.norm(c)
	s := a.content[c]
	if s == nil {
		s = cellSet{}
		a.content[c] = s
		for p := c; ; {
			i := strings.LastIndex(p, "#")
			if i < 0 {
				break
			}
			p = p[:i]
			a.children[p] = append(a.children[p], c)
		}
	}
	return s
}

// loadCells: what may be read through pointers to the given cells (value of type t at that cell:
// for struct values all sub-cells are included).
func (a *pta) load(cells cellSet) cellSet {
	out := cellSet{}
	for c := range cells {
		c = a.norm(c)
		out.addAll(a.contentOf(c))
		// ancestors (whole-struct stores) and descendants (whole-struct loads)
		for p := c; ; {
			i := strings.LastIndex(p, "#")
			if i < 0 {
				break
			}
			p = p[:i]
			out.addAll(a.contentOf(p))
		}
		for _, k := range a.children[c] {
			out.addAll(a.content[k])
		}
	}
	return out
}

func (a *pta) store(cells cellSet, vals cellSet) {
	for c := range cells {
		if a.contentOf(c).addAll(vals) {
			a.changed = true
		}
	}
}

func (a *pta) write(fn *ssa.Function, pos token.Pos, what string, cells cellSet) {
	key := fmt.Sprintf("%p/%d/%s", fn, pos, what)
	w := a.writeIdx[key]
	if w == nil {
		w = &writeEvent{fn: fn, pos: pos, what: what, cells: cellSet{}}
		a.writeIdx[key] = w
		a.writes = append(a.writes, w)
	}
	for c := range cells {
		c = a.norm(c)
		if !w.cells[c] {
			w.cells[c] = true
			a.changed = true
		}
	}
}

// reachable closure of a set of cells through contents
func (a *pta) closure(start cellSet) cellSet {
	out := cellSet{}
	var stack []string
	for c := range start {
		stack = append(stack, a.norm(c))
	}
	for len(stack) > 0 {
		c := stack[len(stack)-1]
		stack = stack[:len(stack)-1]
		if out[c] {
			continue
		}
		out[c] = true
		for n := range a.load(cellSet{c: true}) {
			if !out[n] {
				stack = append(stack, n)
			}
		}
		// sub-cells of the same object
		for _, k := range a.children[c] {
			if !out[k] {
				stack = append(stack, k)
			}
		}
	}
	return out
}

func subCells(cells cellSet, f string) cellSet {
	out := cellSet{}
	for c := range cells {
		out[c+"#"+f] = true
	}
	return out
}

func (a *pta) addFunc(fn *ssa.Function) {
	if fn == nil || a.reach[fn] || len(fn.Blocks) == 0 {
		return
	}
	a.reach[fn] = true
	a.changed = true
}

func siteName(fn *ssa.Function, v ssa.Value) string {
	return "A:" + fnKey(fn) + ":" + v.Name()
}

// external effect table ------------------------------------------------------

type extEffect struct {
	writesArgs []int // arguments whose reachable memory is written
	retAlias   []int // result may alias memory reachable from these arguments
	retFresh   bool
	note       string
	shallow    bool // writes only the argument's own object / elements, not what they reference
}

var pureExtPkgs = map[string]bool{"strings": true, "fmt": true, "errors": true, "path": true, "path/filepath": true, "net/url": true, "strconv": true,
	"log": true, "os": true, "runtime": true, "unicode": true, "unicode/utf8": true, "bytes": true, "reflect": true, "io": true, "embed": true, "net/http": true, "time": true,
	"github.com/go-openapi/jsonreference": true, "github.com/go-openapi/jsonpointer": true, "github.com/go-openapi/swag": true, "sync": true, "encoding/gob": true, "encoding/json": true, "sort": true}

var extTable = map[string]extEffect{
	"encoding/json.Unmarshal":                               {writesArgs: []int{1}, note: "writes *v only; nothing reachable from data flows into v (copy)"},
	"encoding/json.Marshal":                                 {retFresh: true, note: "reads only"},
	"github.com/go-openapi/swag.DynamicJSONToStruct":        {writesArgs: []int{1}, note: "deep copy through JSON: writes target only, target shares nothing with the source"},
	"github.com/go-openapi/swag.FromDynamicJSON":            {writesArgs: []int{1}, note: "deep copy through JSON"},
	"github.com/go-openapi/swag.ConcatJSON":                 {retFresh: true},
	"(*github.com/go-openapi/jsonpointer.Pointer).Get":      {retAlias: []int{1}, note: "reads only; result aliases the document"},
	"github.com/go-openapi/jsonpointer.GetForToken":         {retAlias: []int{0}, note: "reads only; result aliases the document"},
	"(*encoding/gob.Decoder).Decode":                        {writesArgs: []int{1}},
	"(*encoding/gob.Encoder).Encode":                        {},
	"sort.Sort":                                             {writesArgs: []int{0}, shallow: true, note: "permutes the elements of the slice (through Swap); element contents are not written"},
	"sort.Strings":                                          {writesArgs: []int{0}, shallow: true},
	"(*sync.Once).Do":                                       {note: "callee handled separately"},
	"(*log.Logger).SetOutput":                               {writesArgs: []int{0}, note: "reconfigures the logger it is called on"},
	"(*log.Logger).SetFlags":                                {writesArgs: []int{0}, note: "reconfigures the logger it is called on"},
	"(*log.Logger).SetPrefix":                               {writesArgs: []int{0}, note: "reconfigures the logger it is called on"},
	"log.SetOutput":                                         {note: "standard logger of the log package: not package state of spec"},
	"(*bytes.Buffer).Write":                                 {writesArgs: []int{0}},
	"(*bytes.Buffer).WriteString":                           {writesArgs: []int{0}},
	"(*bytes.Buffer).WriteByte":                             {writesArgs: []int{0}},
	"github.com/go-openapi/swag.LoadFromFileOrHTTP":         {retFresh: true},
	"github.com/go-openapi/swag.ReadJSON":                   {writesArgs: []int{1}},
	"github.com/go-openapi/swag.WriteJSON":                  {retFresh: true},
	"github.com/go-openapi/jsonreference.New":               {retFresh: true},
	"github.com/go-openapi/jsonreference.MustCreateRef":     {retFresh: true},
	"(*github.com/go-openapi/jsonreference.Ref).GetPointer": {retAlias: []int{0}},
	"(*github.com/go-openapi/jsonreference.Ref).GetURL":     {retAlias: []int{0}},
	"net/url.Parse":                                         {retFresh: true},
	"(*net/url.URL).Parse":                                  {retFresh: true},
}

// process one instruction
func (a *pta) instr(fn *ssa.Function, ins ssa.Instruction) {
	switch x := ins.(type) {
	case *ssa.Alloc:
		s := siteName(fn, x)
		a.objType[s] = x.Type()
		a.add(x, cellSet{s: true})
	case *ssa.MakeMap, *ssa.MakeSlice, *ssa.MakeChan:
		v := ins.(ssa.Value)
		s := siteName(fn, v)
		a.objType[s] = v.Type()
		a.add(v, cellSet{s: true})
	case *ssa.MakeClosure:
		s := siteName(fn, x)
		a.objType[s] = x.Type()
		a.add(x, cellSet{s: true, "fn:" + fnKey(x.Fn.(*ssa.Function)): true})
		cfn := x.Fn.(*ssa.Function)
		a.addFunc(cfn)
		for i, b := range x.Bindings {
			if i < len(cfn.FreeVars) {
				a.add(cfn.FreeVars[i], a.get(b))
			}
		}
	case *ssa.FieldAddr:
		st := x.X.Type().Underlying().(*types.Pointer).Elem().Underlying().(*types.Struct)
		a.add(x, subCells(a.get(x.X), st.Field(x.Field).Name()))
	case *ssa.Field:
		a.add(x, a.get(x.X))
	case *ssa.IndexAddr:
		a.add(x, subCells(a.get(x.X), "[]"))
	case *ssa.Index:
		a.add(x, a.get(x.X))
	case *ssa.Lookup:
		if _, ok := x.X.Type().Underlying().(*types.Map); ok {
			a.add(x, a.load(subCells(a.get(x.X), "[]")))
		}
	case *ssa.MapUpdate:
		cells := subCells(a.get(x.Map), "[]")
		vals := cellSet{}
		vals.addAll(a.get(x.Key))
		vals.addAll(a.get(x.Value))
		a.store(cells, vals)
		a.write(fn, x.Pos(), "map update", a.get(x.Map))
	case *ssa.Store:
		a.store(a.get(x.Addr), a.get(x.Val))
		a.write(fn, x.Pos(), "store", a.get(x.Addr))
	case *ssa.UnOp:
		if x.Op == token.MUL {
			a.add(x, a.load(a.get(x.X)))
		} else {
			a.add(x, a.get(x.X))
		}
	case *ssa.Phi:
		for _, e := range x.Edges {
			a.add(x, a.get(e))
		}
	case *ssa.ChangeType:
		a.add(x, a.get(x.X))
	case *ssa.ChangeInterface:
		a.add(x, a.get(x.X))
	case *ssa.Convert:
		a.add(x, a.get(x.X))
	case *ssa.MakeInterface:
		a.add(x, a.get(x.X))
	case *ssa.TypeAssert:
		a.add(x, a.get(x.X))
	case *ssa.Slice:
		a.add(x, a.get(x.X))
	case *ssa.Extract:
		a.add(x, a.get(x.Tuple))
	case *ssa.Range:
		a.add(x, a.get(x.X))
	case *ssa.Next:
		a.add(x, a.load(subCells(a.get(x.Iter), "[]")))
	case *ssa.Return:
		rs := a.rets[fn]
		for len(rs) < len(x.Results) {
			rs = append(rs, cellSet{})
		}
		for i, r := range x.Results {
			if rs[i].addAll(a.get(r)) {
				a.changed = true
			}
		}
		a.rets[fn] = rs
	case *ssa.Call:
		a.call(fn, x.Common(), x, x.Pos())
	case *ssa.Defer:
		a.call(fn, x.Common(), nil, x.Pos())
	case *ssa.Go:
		a.call(fn, x.Common(), nil, x.Pos())
	}
}

func (a *pta) bindCall(callee *ssa.Function, args []ssa.Value, res ssa.Value) {
	a.addFunc(callee)
	for i, p := range callee.Params {
		if i < len(args) {
			a.add(p, a.get(args[i]))
		}
	}
	if res != nil {
		for _, r := range a.rets[callee] {
			a.add(res, r)
		}
	}
}

func (a *pta) call(fn *ssa.Function, cc *ssa.CallCommon, res ssa.Value, pos token.Pos) {
	if b, ok := cc.Value.(*ssa.Builtin); ok {
		switch b.Name() {
		case "append":
			if res != nil {
				s := siteName(fn, res)
				a.objType[s] = res.Type()
				a.add(res, a.get(cc.Args[0]))
				a.add(res, cellSet{s: true})
				vals := a.load(subCells(a.get(cc.Args[1]), "[]"))
				vals.addAll(a.load(subCells(a.get(cc.Args[0]), "[]")))
				a.store(subCells(a.get(res), "[]"), vals)
				// in-place growth writes the spare capacity of the first argument's backing array: invisible
				// through the original slice value, but shared state if that array outlives the call
				a.write(fn, pos, "append (spare capacity)", subCells(a.get(cc.Args[0]), "[]"))
			}
		case "copy":
			a.store(subCells(a.get(cc.Args[0]), "[]"), a.load(subCells(a.get(cc.Args[1]), "[]")))
			a.write(fn, pos, "copy", a.get(cc.Args[0]))
		case "delete":
			a.write(fn, pos, "map delete", a.get(cc.Args[0]))
		}
		return
	}
	if cc.IsInvoke() {
		recv := a.get(cc.Value)
		mname := cc.Method.Name()
		// concrete in-package receivers
		handled := false
		for c := range recv {
			t := a.objType[rootOf(c)]
			if t == nil {
				continue
			}
			ms := a.l.prog.MethodSets.MethodSet(t)
			if sel := ms.Lookup(cc.Method.Pkg(), mname); sel != nil {
				if m := a.l.prog.MethodValue(sel); m != nil && m.Pkg == a.l.spkg {
					// bind only this concrete receiver object, not the whole points-to set of the interface value
					a.addFunc(m)
					if len(m.Params) > 0 {
						if a.get(m.Params[0]).addAll(cellSet{c: true}) {
							a.changed = true
						}
					}
					for i, p := range m.Params[1:] {
						if i < len(cc.Args) {
							a.add(p, a.get(cc.Args[i]))
						}
					}
					if res != nil {
						for _, r := range a.rets[m] {
							a.add(res, r)
						}
					}
					handled = true
				}
			}
		}
		// summary receivers (caller-supplied implementations): generic container semantics
		key := ifaceKey(cc)
		for c := range recv {
			if a.summary[rootOf(c)] || !handled {
				switch key {
				case "ResolutionCache.Set":
					for _, arg := range cc.Args {
						a.store(cellSet{c: true}, a.get(arg))
					}
					a.write(fn, pos, "ResolutionCache.Set", cellSet{c: true})
				case "ResolutionCache.Get":
					if res != nil {
						a.add(res, a.load(cellSet{c: true}))
					}
				default:
					if res != nil {
						a.add(res, a.load(cellSet{c: true}))
						a.add(res, cellSet{c: true})
					}
				}
			}
		}
		a.extUsed["invoke "+key] = "caller-supplied implementations behave like a container: Set stores and writes the receiver only, other methods only read"
		return
	}
	callee := cc.StaticCallee()
	if callee != nil {
		if callee.Pkg == a.l.spkg || (callee.Pkg == nil && len(callee.Blocks) > 0 && (callee.Parent() != nil || callee.Synthetic != "")) {
			a.bindCall(callee, cc.Args, res)
			return
		}
		a.external(fn, callee, cc, res, pos)
		return
	}
	// dynamic call through a function value
	resolved := false
	for c := range a.get(cc.Value) {
		if strings.HasPrefix(c, "fn:") {
			if f := a.l.funcs[c[3:]]; f != nil && len(f.Blocks) > 0 {
				a.bindCall(f, cc.Args, res)
				resolved = true
			}
		}
	}
	_ = resolved
	// callbacks supplied by the caller: assumed not to write memory of this package's data structures
	for c := range a.get(cc.Value) {
		if a.summary[rootOf(c)] || strings.HasPrefix(c, "XG:") {
			a.extUsed["dynamic call of caller-supplied function"] = "assumed to write nothing reachable from its arguments; its results are external values"
			if res != nil {
				a.add(res, cellSet{"EXT": true})
			}
		}
	}
	if res != nil && len(a.get(cc.Value)) == 0 {
		a.add(res, cellSet{"EXT": true})
	}
}

func (a *pta) external(fn *ssa.Function, callee *ssa.Function, cc *ssa.CallCommon, res ssa.Value, pos token.Pos) {
	key := callee.String()
	// (*sync.Once).Do(f): f is called
	if key == "(*sync.Once).Do" && len(cc.Args) == 2 {
		for c := range a.get(cc.Args[1]) {
			if strings.HasPrefix(c, "fn:") {
				if f := a.l.funcs[c[3:]]; f != nil {
					a.bindCall(f, nil, nil)
				}
			}
		}
		return
	}
	if strings.HasPrefix(key, "(reflect.Value).Set") && len(cc.Args) >= 1 {
		// v.Set*(x): writes the variable v refers to and stores x there
		a.extUsed[key] = "writes the variable behind the reflect.Value, storing the argument"
		a.write(fn, pos, "call "+key, a.get(cc.Args[0]))
		for _, arg := range cc.Args[1:] {
			a.store(a.get(cc.Args[0]), a.get(arg))
		}
		return
	}
	eff, ok := extTable[key]
	pkg := ""
	if callee.Pkg != nil {
		pkg = callee.Pkg.Pkg.Path()
	} else if recv := callee.Signature.Recv(); recv != nil {
		if n, ok := derefNamed(recv.Type()); ok && n.Obj().Pkg() != nil {
			pkg = n.Obj().Pkg().Path()
		}
	}
	if !ok {
		if pureExtPkgs[pkg] {
			eff = extEffect{retFresh: true, retAlias: allArgs(len(cc.Args)), note: "assumed read-only (package " + pkg + ")"}
		} else {
			eff = extEffect{writesArgs: allArgs(len(cc.Args)), retAlias: allArgs(len(cc.Args)), retFresh: true, note: "unknown dependency: assumed to write everything reachable from its arguments"}
		}
	}
	note := eff.note
	if note == "" {
		note = "per effect table"
	}
	a.extUsed[key] = note
	for _, i := range eff.writesArgs {
		if i < len(cc.Args) {
			// deep write: expanded to everything reachable after the fixpoint (see finish)
			if eff.shallow {
				cells := cellSet{}
				cells.addAll(a.get(cc.Args[i]))
				cells.addAll(subCells(a.get(cc.Args[i]), "[]"))
				a.write(fn, pos, "call "+key, cells)
				continue
			}
			a.write(fn, pos, "deep:call "+key, a.get(cc.Args[i]))
		}
	}
	if res != nil {
		if eff.retFresh || len(eff.retAlias) == 0 {
			a.add(res, cellSet{"EXT": true})
		}
		for _, i := range eff.retAlias {
			if i < len(cc.Args) {
				// the result lies inside an object reachable from the argument: approximated by the
				// argument's own objects and what they directly hold (regions are what matters)
				a.add(res, a.get(cc.Args[i]))
				a.add(res, a.load(a.get(cc.Args[i])))
			}
		}
	}
}

// finish expands deep write events to everything reachable from the written cells.
func (a *pta) finish() {
	for _, w := range a.writes {
		if strings.HasPrefix(w.what, "deep:") {
			w.what = w.what[5:]
			w.cells = a.closure(w.cells)
			delete(w.cells, "EXT")
		}
	}
}

func allArgs(n int) []int {
	var out []int
	for i := 0; i < n; i++ {
		out = append(out, i)
	}
	return out
}

// analyze runs the analysis from one entry point; params[i] names the summary object of parameter i.
func (a *pta) analyze(entry *ssa.Function) {
	a.addSummary("EXT")
	for i, p := range entry.Params {
		name := fmt.Sprintf("P:%s", p.Name())
		_ = i
		a.addSummary(name)
		a.add(p, cellSet{name: true})
	}
	a.addFunc(entry)
	if init := a.l.spkg.Func("init"); init != nil {
		a.addFunc(init)
	}
	// package initialisation state: the init function and once-guarded initialisers are part of every history
	for iter := 0; iter < 200; iter++ {
		a.iters = iter
		a.changed = false
		var fns []*ssa.Function
		for f := range a.reach {
			fns = append(fns, f)
		}
		sort.Slice(fns, func(i, j int) bool { return fnKey(fns[i]) < fnKey(fns[j]) })
		for _, f := range fns {
			for _, b := range f.Blocks {
				for _, ins := range b.Instrs {
					a.instr(f, ins)
				}
			}
		}
		if !a.changed {
			break
		}
	}
	a.finish()
}
