package main

// Built-in semantics for a few dependency functions (SMT-native) and default
// handling of external calls.

import (
	"fmt"
	"go/token"
	"go/types"

	"golang.org/x/tools/go/ssa"
)

type external struct {
	mods   []string
	modAll bool
	apply  func(fc *fctx, args []*Val, pos token.Pos) []*Val
}

func errVal(fc *fctx, nonNil bool) *Val {
	tr := fc.tr
	n := tr.u.freshConst(fc.prefix+"err", "Iface")
	if nonNil {
		tr.fact(not(eq("(if_t "+n+")", "0")))
	}
	return mkVal(n, "Iface", types.Universe.Lookup("error").Type())
}

var externals map[string]*external


func init() {
	str := types.Typ[types.String]
	externals = map[string]*external{
		"strings.HasPrefix": {apply: func(fc *fctx, a []*Val, _ token.Pos) []*Val {
			return []*Val{boolVal("(str.prefixof " + a[1].E() + " " + a[0].E() + ")")}
		}},
		"strings.HasSuffix": {apply: func(fc *fctx, a []*Val, _ token.Pos) []*Val {
			return []*Val{boolVal("(str.suffixof " + a[1].E() + " " + a[0].E() + ")")}
		}},
		"strings.Contains": {apply: func(fc *fctx, a []*Val, _ token.Pos) []*Val {
			return []*Val{boolVal("(str.contains " + a[0].E() + " " + a[1].E() + ")")}
		}},
		"strings.TrimPrefix": {apply: func(fc *fctx, a []*Val, _ token.Pos) []*Val {
			s, p := a[0].E(), a[1].E()
			return []*Val{fc.name("trimp", mkVal(ite("(str.prefixof "+p+" "+s+")", fmt.Sprintf("(str.substr %s (str.len %s) (- (str.len %s) (str.len %s)))", s, p, s, p), s), "String", str))}
		}},
		"strings.TrimSuffix": {apply: func(fc *fctx, a []*Val, _ token.Pos) []*Val {
			s, p := a[0].E(), a[1].E()
			return []*Val{fc.name("trims", mkVal(ite("(str.suffixof "+p+" "+s+")", fmt.Sprintf("(str.substr %s 0 (- (str.len %s) (str.len %s)))", s, s, p), s), "String", str))}
		}},
		"strings.ToLower": {apply: func(fc *fctx, a []*Val, _ token.Pos) []*Val {
			fc.tr.declLower()
			return []*Val{mkVal("(str_lower "+a[0].E()+")", "String", str)}
		}},
		"strings.EqualFold": {apply: func(fc *fctx, a []*Val, _ token.Pos) []*Val {
			fc.tr.declLower()
			fc.tr.trusted["strings.EqualFold(a,b) is modelled as ToLower(a)==ToLower(b)"] = true
			return []*Val{boolVal(eq("(str_lower "+a[0].E()+")", "(str_lower "+a[1].E()+")"))}
		}},
		"bytes.Equal": {apply: func(fc *fctx, a []*Val, _ token.Pos) []*Val {
			// equal bytes denote equal JSON values; a well-formed text equals one of the keyword literals exactly when it
			// denotes that keyword
			tr := fc.tr
			tr.jsonDecls()
			r := fc.freshVal("beq", types.Typ[types.Bool])
			ja, jb := "(jv "+a[0].E()+")", "(jv "+a[1].E()+")"
			tr.assume(and(implies(r.E(), eq(ja, jb)),
				implies(and("(jWF "+a[0].E()+")", "(jWF "+a[1].E()+")", or(eq(jb, "jTrue"), eq(jb, "jFalse"), eq(jb, "jNull")), eq(ja, jb)), r.E())))
			return []*Val{r}
		}},
		"fmt.Errorf": {apply: func(fc *fctx, a []*Val, _ token.Pos) []*Val { return []*Val{errVal(fc, true)} }},
		"errors.New": {apply: func(fc *fctx, a []*Val, _ token.Pos) []*Val { return []*Val{errVal(fc, true)} }},
		"errors.Join": {apply: func(fc *fctx, a []*Val, _ token.Pos) []*Val { return []*Val{errVal(fc, false)} }},
		"fmt.Sprintf": {apply: func(fc *fctx, a []*Val, _ token.Pos) []*Val {
			// Sprintf("%s%s", x, y) with string arguments is concatenation; everything else is an arbitrary string
			if a[0].E() == smtString("%s%s") && len(a) == 2 {
				tr := fc.tr
				ift := types.NewInterfaceType(nil, nil)
				e0 := tr.loadTag(tr.cur, tr.u.sla(a[1], "0"), ift, "elem")
				e1 := tr.loadTag(tr.cur, tr.u.sla(a[1], "1"), ift, "elem")
				sid := fmt.Sprint(tr.u.typeID(str))
				isStr := and(eq(slPart(a[1], 2), "2"), eq(ifPart(e0, 0), sid), eq(ifPart(e1, 0), sid))
				cat := "(str.++ " + tr.u.unbox(ifPart(e0, 1), "String") + " " + tr.u.unbox(ifPart(e1, 1), "String") + ")"
				r := fc.freshVal("sprintf", str)
				tr.assume(implies(isStr, eq(r.E(), cat)))
				return []*Val{r}
			}
			return []*Val{fc.freshVal("sprintf", str)}
		}},
		"(reflect.Value).String": {apply: func(fc *fctx, a []*Val, _ token.Pos) []*Val { return []*Val{fc.freshVal("rvstr", str)} }},
		"(*sync.Once).Do":         {apply: noop},
		"(*sync.RWMutex).Lock":    {apply: noop},
		"(*sync.RWMutex).Unlock":  {apply: noop},
		"(*sync.RWMutex).RLock":   {apply: noop},
		"(*sync.RWMutex).RUnlock": {apply: noop},
		"(*sync.Mutex).Lock":      {apply: noop},
		"(*sync.Mutex).Unlock":    {apply: noop},
		"(*log.Logger).Printf":    {apply: noop},
		"log.Println":             {apply: noop},

		"log.Printf":              {apply: noop},
		"(*log.Logger).Output":    {apply: func(fc *fctx, a []*Val, _ token.Pos) []*Val { return []*Val{errVal(fc, false)} }},
	}
}

func noop(fc *fctx, a []*Val, _ token.Pos) []*Val { return []*Val{} }

func (tr *Translator) declLower() {
	u := tr.u
	u.decl("str_lower", "(declare-fun str_lower (String) String)")
	u.decl("str_lower_idem", "(assert (forall ((s String)) (! (= (str_lower (str_lower s)) (str_lower s)) :pattern ((str_lower (str_lower s))))))")
	u.decl("str_lower_len", "(assert (forall ((s String)) (! (= (str.len (str_lower s)) (str.len s)) :pattern ((str_lower s)))))")
}

func lookupExternal(fn *ssa.Function) *external {
	return externals[fn.String()]
}

func (fc *fctx) externalCall(callee *ssa.Function, args []*Val, cc *ssa.CallCommon, pos token.Pos) []*Val {
	tr := fc.tr
	key := callee.String()
	switch key {
	case "encoding/json.Marshal":
		return fc.jsonMarshal(cc, pos)
	case "encoding/json.Unmarshal":
		if r := fc.jsonUnmarshal(cc, pos); r != nil {
			return r
		}
	case "github.com/go-openapi/swag.ConcatJSON":
		if r := fc.concatJSON(cc, pos); r != nil {
			return r
		}
	case "github.com/go-openapi/jsonpointer.GetForToken":
		if r := fc.getForToken(cc, args, pos); r != nil {
			return r
		}
	case "reflect.ValueOf":
		tr.u.decl("specfn:reflect_kind_of", "(declare-fun reflect_kind_of (Iface) Int)")
		v := fc.freshVal("rv", callee.Signature.Results().At(0).Type())
		tr.reflectOf[v.E()] = args[0]
		tr.trusted["reflect.ValueOf/Kind: the kind is an uninterpreted function of the interface value"] = true
		return []*Val{v}
	case "(reflect.Value).IsNil":
		if src, ok := tr.reflectOf[args[0].E()]; ok {
			// for a pointer kind: the pointer held by the interface is nil
			return []*Val{boolVal(eq(ifPart(src, 1), "0"))}
		}
		return fc.freshResults(callee.Signature.Results(), "isnil")
	case "(reflect.Value).Kind":
		tr.u.decl("specfn:reflect_kind_of", "(declare-fun reflect_kind_of (Iface) Int)")
		if src, ok := tr.reflectOf[args[0].E()]; ok {
			return []*Val{mkVal("(reflect_kind_of "+src.E()+")", "Int", callee.Signature.Results().At(0).Type())}
		}
		return fc.freshResults(callee.Signature.Results(), "kind")
	}
	if e := externals[key]; e != nil {
		tr.trusted["built-in model of "+key] = true
		return e.apply(fc, args, pos)
	}
	if c, ok := tr.contracts.Exts[key]; ok {
		params := tr.contracts.ExtSigs[key]
		return fc.callContract(c, key, params, args, callee.Signature.Results(), pos)
	}
	tr.callArgs = nil
	for _, a := range args {
		tr.callArgs = append(tr.callArgs, tr.pointersIn(a, 0)...)
	}
	tr.warn("%s: external %s without contract: everything havocked", fnKey(fc.fn), key)
	// the function under contract left the modelled subset: say so as an obligation of its own instead of leaving it to
	// the vacuity check (what follows an unmodelled call is not meaningful)
	if o := tr.oblige("subset", "subset/"+fnKey(fc.fn)+"/unmodelled-external/"+sanitize(key), "false", pos, tr.topProps,
		"call of "+key+", a dependency function without an assumed contract: the code left the subset the contracts were written for"); o != nil {
		// decided here, not by a solver: after an unmodelled call the symbolic state may be inconsistent, and `false`
		// would then be "proved"
		o.Expect = "preset"
		o.Status = "unknown"
		o.Solver = "govc (function left the modelled subset)"
	}
	tr.trusted["unmodelled external "+key+" (havocs all memory, arbitrary results)"] = true
	tr.havocAll()
	return fc.freshResults(callee.Signature.Results(), "x")
}
