package main

import (
	"go/types"
	"sort"
	"strings"
)

// Property-specific additional back ends (FRAME checker, lemmas).

var optionParams = map[string]string{"ExpandSpec": "options", "ExpandSchemaWithBasePath": "opts", "ResolveRefWithBase": "options", "ResolveParameterWithBase": "options",
	"ResolveResponseWithBase": "options", "ResolvePathItemWithBase": "options", "ResolvePathItem": "options", "ResolveItemsWithBase": "options", "ResolveItems": "options"}

var rootParams = map[string]string{"ExpandSchema": "root", "ExpandResponseWithRoot": "root", "ExpandParameterWithRoot": "root", "ResolveRefWithBase": "root", "ResolveRef": "root",
	"ResolveParameterWithBase": "root", "ResolveParameter": "root", "ResolveResponseWithBase": "root", "ResolveResponse": "root", "ResolvePathItemWithBase": "root",
	"ResolvePathItem": "root", "ResolveItemsWithBase": "root", "ResolveItems": "root"}

func runExtras(l *loaded, run *PropRun, prop, tier string) {
	if tier == "thorough" {
		runConformance(run)
	}
	switch prop {
	case "C16":
		onceObligations(l, run)
		initialiserCallObligation(l, run)
		frameGlobalObligations(l, run, exportedEntryPoints(l))
		frameMetaObligations(l, run, expanderEntries)
		for _, k := range expanderEntries {
			if p, ok := optionParams[k]; ok {
				frameParamObligations(l, run, k, []string{p}, "options")
			}
		}
	case "C17":
		onceObligations(l, run)
		initialiserCallObligation(l, run)
		frameGlobalObligations(l, run, exportedEntryPoints(l))
		lockObligations(l, run, "simpleCache", "store", "lock")
		frameReadonlyObligations(l, run, map[string]bool{"MarshalJSON": true, "JSONLookup": true, "Validations": true, "GobEncode": true,
			"HasNumberValidations": true, "HasStringValidations": true, "HasArrayValidations": true, "HasEnum": true, "HasObjectValidations": true})
		for _, k := range expanderEntries {
			if p, ok := rootParams[k]; ok {
				frameParamObligations(l, run, k, []string{p}, "root")
			}
			if p, ok := optionParams[k]; ok {
				frameParamObligations(l, run, k, []string{p}, "options")
			}
		}
	case "C01", "C06":
		fragmentTagObligations(l, run)
		codecReceiverObligations(l, run, "MarshalJSON")
	case "C07":
		codecReceiverObligations(l, run, "MarshalJSON")
	case "C13":
		codecReceiverObligations(l, run, "GobEncode")
	case "C05", "C15":
		pointableObligations(l, run)
	case "C19", "C02":
		witnessObligation(run, "bounded/expandPathItem/ref-with-siblings-is-replaced-by-its-target",
			"ExpandSpec on one document: a path item with a $ref next to a parameters list of its own",
			"pathitem_ref_siblings_test.go", "TestVerifWitnessPathItemRefWithSiblings",
			"the dereferenced path item is a merge of the target and the sibling members")
		if prop == "C19" {
			fragmentTagObligations(l, run)
			codecReceiverObligations(l, run, "MarshalJSON")
		}
	case "C04":
		terminationWitness(run)
	case "C14":
		gobObligations(l, run)
		codecReceiverObligations(l, run, "GobEncode")
	case "C10":
		for _, k := range expanderEntries {
			if p, ok := rootParams[k]; ok {
				frameParamObligations(l, run, k, []string{p}, "root")
			}
			if p, ok := optionParams[k]; ok {
				frameParamObligations(l, run, k, []string{p}, "options")
			}
		}
	}
}

// conformance harnesses of the assumed dependency contracts (thorough tier): bounded checks against the real
// dependencies, run through `go test -overlay`; reported as bounded stand-ins, never as proofs.
var conformanceTests = map[string][]string{
	"TestVerifAxiomPathLaws":        {"C02", "C03", "C04", "C05", "C08", "C09", "C10", "C11", "C12", "C18"},
	"TestVerifAxiomURLRecords":      {"C02", "C03", "C04", "C05", "C08", "C09", "C10", "C11", "C12", "C13", "C18"},
	"TestVerifAxiomJSONReference":   {"C02", "C03", "C04", "C05", "C09", "C12", "C13", "C18"},
	"TestVerifAxiomFilepathAbs":     {"C11"},
	"TestVerifAxiomAtoiItoa":        {"C01", "C05", "C15", "C19"},
	"TestVerifAxiomJSONStructModel": {"C01", "C06", "C07", "C13", "C14", "C15", "C19"},
	"TestVerifAxiomConcatJSON":      {"C01", "C06", "C07", "C15", "C19"},
	"TestVerifAxiomGetForToken":     {"C05", "C15"},
	"TestVerifAxiomGobRules":        {"C13", "C14"},
}

var conformanceBounds = map[string]string{
	"TestVerifAxiomPathLaws":        "path.Clean/Dir/Join/IsAbs laws on every string over {a,b,.,/} up to length 7 (pairs up to length 4)",
	"TestVerifAxiomURLRecords":      "url.Parse/String record laws on 2808 records (6 schemes x 5 hosts x 9 paths x 3 queries x 4 fragments)",
	"TestVerifAxiomJSONReference":   "jsonreference.New: record, flags, String, IsCanonical, IsRoot, idempotent canonical form on 17 reference shapes",
	"TestVerifAxiomFilepathAbs":     "filepath.Abs on every path over {a,.,/} up to length 5",
	"TestVerifAxiomAtoiItoa":        "strconv.Atoi/Itoa inverse on -1000..100000 and 7 non-canonical spellings",
	"TestVerifAxiomJSONStructModel": "encoding/json tag-directed model on CommonValidations (6 values): members emitted, decode(encode), null / unknown / ill-typed / duplicate members, string literals, sorted map keys",
	"TestVerifAxiomConcatJSON":      "swag.ConcatJSON member multiset on 6 blob combinations (duplicates kept, nil blobs skipped)",
	"TestVerifAxiomGetForToken":     "jsonpointer.GetForToken on 4 props structs: every JSON name, unknown names, typed nil for unset pointers; on a nil and a non-nil *Schema (5 tokens): dispatch to the kind's own JSONLookup; on a []Schema (6 tokens): index or error",
	"TestVerifAxiomGobRules":        "encoding/gob field rules g1-g5 on probe values (zero pointers, empty slices and maps, nested containers, interface payloads)",
}

func runConformance(run *PropRun) {
	var names []string
	for n, props := range conformanceTests {
		if hasProp(props, run.Prop) {
			names = append(names, n)
		}
	}
	if len(names) == 0 {
		return
	}
	sort.Strings(names)
	out := runOverlayVerbose(run.Repo, "/verif/axioms/conformance_test.go", "^("+strings.Join(names, "|")+")$")
	for _, n := range names {
		o := &Obligation{Name: "axiom-conformance/" + n, Kind: "bounded", Props: []string{run.Prop}, Solver: "go test (bounded)", Expect: "unsat",
			Src: "bounded conformance of an assumed dependency contract: " + conformanceBounds[n]}
		switch {
		case strings.Contains(out, "--- PASS: "+n+" "):
			o.Status = "proved"
			run.Bounded = append(run.Bounded, "bounded (not a proof): "+conformanceBounds[n]+" — passed")
		case strings.Contains(out, "--- FAIL: "+n+" "):
			o.Status = "failed"
			o.Model = out
			o.replayNote = "an assumed contract on a dependency does not hold on the enumerated inputs: the trusted base is wrong for this dependency version"
			o.replayConfirmed = true
			run.Bounded = append(run.Bounded, "bounded: "+conformanceBounds[n]+" — FAILED")
		default:
			o.Status = "unknown"
			o.Model = out
			run.Bounded = append(run.Bounded, "bounded: "+conformanceBounds[n]+" — did not run")
		}
		run.Extra = append(run.Extra, o)
	}
}

// terminationWitness: termination of the expander recursion is not an SMT obligation (no decreases clauses; C04 argues it
// from the distinct-stack precondition under the assumption ids-canonical). For schemas that carry a relative directory id
// the argument is false; that input class is represented by one bounded obligation that runs the real ExpandSpec on the
// recorded input (findings/relative_id_cycle_test.go). It is labelled bounded and never counted as proved.
func terminationWitness(run *PropRun) {
	const name = "bounded/ExpandSpec/terminates-on-relative-id-cycle"
	const bound = "ExpandSpec on one document: a definition with id \"sub/\" that refers to itself (runaway cut after 2000 id scopes)"
	failed, built, out := witnessStatus(run.Repo, "/verif/findings/relative_id_cycle_test.go", "TestVerifWitnessRelativeIDCycle")
	o := &Obligation{Name: name, Kind: "bounded", Props: []string{run.Prop}, Solver: "go test (bounded)", Expect: "unsat", Src: "bounded: " + bound}
	switch {
	case !built:
		o.Status = "unknown"
		o.Model = out
		run.Bounded = append(run.Bounded, "bounded: "+bound+" — did not run")
	case failed:
		o.Status = "failed"
		o.Model = out
		o.replayNote = "the real ExpandSpec does not return on this input"
		o.replayConfirmed = true
		run.Bounded = append(run.Bounded, "bounded: "+bound+" — FAILED (recorded known finding)")
	default:
		o.Status = "proved"
		run.Bounded = append(run.Bounded, "bounded (not a proof): "+bound+" — returned")
	}
	run.Extra = append(run.Extra, o)
}

// pointableObligations: jsonpointer dispatches to a kind's own JSONLookup only if the dynamic value it meets implements
// JSONPointable, and the values it meets inside maps and slices are held by value (definitions, properties, allOf,
// paths, responses, parameters ...). The lookup lemmas call the method directly, so they cannot see a receiver change;
// this type-level obligation states the dependency's precondition: for every kind that has a JSONLookup method, the method
// is in the method set of the value type.
func pointableObligations(l *loaded, run *PropRun) {
	valueMethodObligations(l, run, "JSONLookup", "pointable",
		"values held in maps and slices are met by jsonpointer as JSONPointable",
		"a value held by value (map or slice element, struct member) no longer implements jsonpointer.JSONPointable; pointers through it fall back to the reflective struct lookup, which knows neither extensions nor unknown keywords nor $ref")
}

// codecReceiverObligations: encoding/json and encoding/gob find a custom encoder of a value that is not addressable (a map
// element, a struct member encoded by value, an interface payload) only if the method is in the method set of the value
// type. Every kind that has a MarshalJSON (GobEncode) method must have it there.
func codecReceiverObligations(l *loaded, run *PropRun, method string) {
	prefix := "marshalable"
	if method == "GobEncode" {
		prefix = "gob-encodable"
	}
	valueMethodObligations(l, run, method, prefix,
		"values that are not addressable (map elements, members encoded by value) are encoded by the kind's own "+method,
		"a value that is not addressable is encoded with the default struct encoding instead of the kind's own "+method)
}

func valueMethodObligations(l *loaded, run *PropRun, method, prefix, why, broken string) {
	scope := l.pkg.Types.Scope()
	names := scope.Names()
	sort.Strings(names)
	n := 0
	for _, name := range names {
		tn, ok := scope.Lookup(name).(*types.TypeName)
		if !ok || tn.IsAlias() {
			continue
		}
		t := tn.Type()
		pm := types.NewMethodSet(types.NewPointer(t)).Lookup(l.pkg.Types, method)
		if pm == nil {
			continue
		}
		n++
		vm := types.NewMethodSet(t).Lookup(l.pkg.Types, method)
		o := &Obligation{Name: prefix + "/" + name, Kind: "frame", Props: []string{run.Prop}, Solver: "go/types", Expect: "unsat",
			Src: method + " of " + name + " is in the method set of the value type: " + why}
		if vm != nil {
			o.Status = "proved"
		} else {
			o.Status = "failed"
			o.Model = method + " of " + name + " has a pointer receiver: " + broken
			o.replayNote = "type-level obligation (go/types method sets of the working tree)"
		}
		run.Extra = append(run.Extra, o)
	}
	if n == 0 {
		run.Extra = append(run.Extra, &Obligation{Name: prefix + "/none", Kind: "frame", Props: []string{run.Prop}, Solver: "go/types", Expect: "unsat", Status: "failed",
			Src: "some kind has a " + method + " method", Model: "no type of the package has a " + method + " method any more: the obligation no longer binds"})
	}
}

// fragmentTagObligations: the round-trip and no-duplicate lemmas of the kinds whose MarshalJSON joins several fragments
// with swag.ConcatJSON (every struct that embeds VendorExtensible next to its keyword structs) take as a precondition
// that the JSON names of the keyword fragments are not extension names, are not "$ref" and do not occur in two
// fragments. Those are facts about the struct tags of the working tree, so they are obligations here, decided with
// go/types: for every such kind, (1) no tagged name of a keyword fragment starts with "x-" (case-insensitively, as
// VendorExtensible matches them), (2) no name other than Refable's is "$ref", (3) no name occurs in two fragments.
func fragmentTagObligations(l *loaded, run *PropRun) {
	scope := l.pkg.Types.Scope()
	names := scope.Names()
	sort.Strings(names)
	n := 0
	for _, name := range names {
		tn, ok := scope.Lookup(name).(*types.TypeName)
		if !ok || tn.IsAlias() {
			continue
		}
		st, ok := tn.Type().Underlying().(*types.Struct)
		if !ok {
			continue
		}
		hasExt := false
		for i := 0; i < st.NumFields(); i++ {
			if f := st.Field(i); f.Embedded() && f.Name() == "VendorExtensible" {
				hasExt = true
			}
		}
		if !hasExt {
			continue
		}
		n++
		var problems []string
		owner := map[string]string{}
		for i := 0; i < st.NumFields(); i++ {
			f := st.Field(i)
			if f.Embedded() && (f.Name() == "VendorExtensible") {
				continue
			}
			frag := f.Name()
			var fields []jsonField
			ft := f.Type()
			if pt, ok := ft.Underlying().(*types.Pointer); ok {
				ft = pt.Elem()
			}
			if est, ok := ft.Underlying().(*types.Struct); ok && f.Embedded() {
				fields = jsonFields(est)
			} else {
				fields = jsonFields(types.NewStruct([]*types.Var{f}, []string{st.Tag(i)}))
			}
			for _, jf := range fields {
				low := strings.ToLower(jf.name)
				if strings.HasPrefix(low, "x-") {
					problems = append(problems, "member "+jf.name+" of fragment "+frag+" is an extension name: VendorExtensible emits and reads it as well")
				}
				if jf.name == "$ref" && frag != "Refable" {
					problems = append(problems, "member $ref of fragment "+frag+" collides with the reference member")
				}
				if prev, dup := owner[jf.name]; dup && prev != frag {
					problems = append(problems, "member "+jf.name+" occurs in fragments "+prev+" and "+frag)
				}
				owner[jf.name] = frag
			}
		}
		o := &Obligation{Name: "tags/" + name + "/fragments-disjoint", Kind: "frame", Props: []string{run.Prop}, Solver: "go/types", Expect: "unsat",
			Src: "JSON names of the keyword fragments of " + name + " are not extension names, not $ref, and pairwise distinct across fragments (precondition of the ConcatJSON model and of the round-trip lemmas)"}
		if len(problems) == 0 {
			o.Status = "proved"
		} else {
			sort.Strings(problems)
			o.Status = "failed"
			o.Model = strings.Join(problems, "\n")
			o.replayNote = "type-level obligation (struct tags of the working tree)"
		}
		run.Extra = append(run.Extra, o)
	}
	if n == 0 {
		run.Extra = append(run.Extra, &Obligation{Name: "tags/none", Kind: "frame", Props: []string{run.Prop}, Solver: "go/types", Expect: "unsat", Status: "failed",
			Src: "some kind embeds VendorExtensible", Model: "no struct embeds VendorExtensible any more: the obligation no longer binds"})
	}
}

// witnessObligation: an input class that the contracts do not cover (here: decoding a reference target into a holder that
// is not empty - the JSON model says the present members are overwritten, encoding/json merges composite members) is
// represented by one bounded obligation that runs the real code on the recorded input. Labelled bounded, never counted as
// proved; when it fails the failure is matched against the known findings.
func witnessObligation(run *PropRun, name, bound, file, test, note string) {
	failed, built, out := witnessStatus(run.Repo, "/verif/findings/"+file, test)
	o := &Obligation{Name: name, Kind: "bounded", Props: []string{run.Prop}, Solver: "go test (bounded)", Expect: "unsat", Src: "bounded: " + bound}
	switch {
	case !built:
		o.Status = "unknown"
		o.Model = out
		run.Bounded = append(run.Bounded, "bounded: "+bound+" — did not run")
	case failed:
		o.Status = "failed"
		o.Model = out
		o.replayNote = note
		o.replayConfirmed = true
		run.Bounded = append(run.Bounded, "bounded: "+bound+" — FAILED (recorded known finding)")
	default:
		o.Status = "proved"
		run.Bounded = append(run.Bounded, "bounded (not a proof): "+bound+" — passed")
	}
	run.Extra = append(run.Extra, o)
}
