package main

// Property-specific additional back ends (FRAME checker, lemmas).

var optionParams = map[string]string{"ExpandSpec": "options", "ExpandSchemaWithBasePath": "opts", "ResolveRefWithBase": "options", "ResolveParameterWithBase": "options",
	"ResolveResponseWithBase": "options", "ResolvePathItemWithBase": "options", "ResolvePathItem": "options", "ResolveItemsWithBase": "options", "ResolveItems": "options"}

var rootParams = map[string]string{"ExpandSchema": "root", "ExpandResponseWithRoot": "root", "ExpandParameterWithRoot": "root", "ResolveRefWithBase": "root", "ResolveRef": "root",
	"ResolveParameterWithBase": "root", "ResolveParameter": "root", "ResolveResponseWithBase": "root", "ResolveResponse": "root", "ResolvePathItemWithBase": "root",
	"ResolvePathItem": "root", "ResolveItemsWithBase": "root", "ResolveItems": "root"}

func runExtras(l *loaded, run *PropRun, prop, tier string) {
	switch prop {
	case "C16":
		onceObligations(l, run)
		frameGlobalObligations(l, run, exportedEntryPoints(l))
		frameMetaObligations(l, run, expanderEntries)
		for _, k := range expanderEntries {
			if p, ok := optionParams[k]; ok {
				frameParamObligations(l, run, k, []string{p}, "options")
			}
		}
	case "C17":
		onceObligations(l, run)
		frameGlobalObligations(l, run, exportedEntryPoints(l))
		lockObligations(l, run, "simpleCache", "store", "lock")
		frameReadonlyObligations(l, run, map[string]bool{"MarshalJSON": true, "JSONLookup": true, "Validations": true, "GobEncode": true,
			"HasNumberValidations": true, "HasStringValidations": true, "HasArrayValidations": true, "HasEnum": true, "HasObjectValidations": true})
		for _, k := range expanderEntries {
			if p, ok := rootParams[k]; ok {
				frameParamObligations(l, run, k, []string{p}, "root")
			}
			if p, ok := optionParams[k]; ok {
				frameParamObligations(l, run, k, []string{p}, "options")
			}
		}
	case "C14":
		gobObligations(l, run)
	case "C10":
		for _, k := range expanderEntries {
			if p, ok := rootParams[k]; ok {
				frameParamObligations(l, run, k, []string{p}, "root")
			}
			if p, ok := optionParams[k]; ok {
				frameParamObligations(l, run, k, []string{p}, "options")
			}
		}
	}
}
