package main

// Property-specific additional back ends (FRAME checker, lemmas). Filled in per property.

func runExtras(l *loaded, run *PropRun, prop, tier string) {
}
