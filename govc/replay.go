package main

// Replaying witnesses against the real code (go test -overlay: nothing is written to /repo) and the
// known-findings file.

import (
	"bytes"
	"context"
	"encoding/json"
	"fmt"
	"os"
	"os/exec"
	"path/filepath"
	"strings"
	"time"
)

type Finding struct {
	Property   string   `json:"property"`
	Properties []string `json:"properties"`
	Obligation string   `json:"obligation"` // obligation name (without @retN / #n suffix)
	What       string   `json:"what"`
	Witness    string   `json:"witness_test"` // file under /verif/findings, must FAIL on the current tree
	Run        string   `json:"run"`          // -run pattern
}

type FindingsFile struct {
	Findings []Finding `json:"findings"`
	Fixed    []string  `json:"fixed"`
}

func loadFindings() *FindingsFile {
	var ff FindingsFile
	b, err := os.ReadFile("/verif/known_findings.json")
	if err != nil {
		return &ff
	}
	if err := json.Unmarshal(b, &ff); err != nil {
		fmt.Fprintln(os.Stderr, "govc: known_findings.json:", err)
	}
	return &ff
}

func baseOblName(n string) string {
	if i := strings.Index(n, "@ret"); i >= 0 {
		n = n[:i]
	}
	if i := strings.LastIndex(n, "#"); i >= 0 && isNum(n[i+1:]) {
		n = n[:i]
	}
	return n
}

func (f *Finding) appliesTo(prop string) bool {
	if f.Property == prop {
		return true
	}
	for _, p := range f.Properties {
		if p == prop {
			return true
		}
	}
	return false
}

// runOverlayTest compiles the given test file into /repo's package through an overlay and runs it.
// Returns failed=true when the test fails (exit status != 0 and the build succeeded).
func runOverlayTest(repo, testFile, runPattern string, timeout time.Duration) (failed bool, built bool, out string) {
	dir, err := os.MkdirTemp("", "govc-replay")
	if err != nil {
		return false, false, err.Error()
	}
	defer os.RemoveAll(dir)
	target := filepath.Join(repo, "zz_verif_replay_test.go")
	ov := map[string]map[string]string{"Replace": {target: testFile}}
	b, _ := json.Marshal(ov)
	ovPath := filepath.Join(dir, "overlay.json")
	os.WriteFile(ovPath, b, 0o644)
	ctx, cancel := context.WithTimeout(context.Background(), timeout)
	defer cancel()
	cmd := exec.CommandContext(ctx, "go", "test", "-overlay", ovPath, "-vet=off", "-count=1", "-timeout", "60s", "-run", runPattern, ".")
	cmd.Dir = repo
	cmd.Env = append(os.Environ(), "GOFLAGS=-mod=mod", "GOPROXY=off", "GOSUMDB=off", "GOTOOLCHAIN=local")
	var buf bytes.Buffer
	cmd.Stdout = &buf
	cmd.Stderr = &buf
	err = cmd.Run()
	out = buf.String()
	if err == nil {
		return false, true, out
	}
	if strings.Contains(out, "[build failed]") || strings.Contains(out, "[setup failed]") {
		return false, false, out
	}
	return true, true, out
}

// witnessStatus runs the top-level test of a witness once (verbose) and answers for the test or sub-test named by run
// ("TestX" or "TestX/sub name"): failed / built.
var witnessCache = map[string]string{}

func witnessStatus(repo, testFile, run string) (failed bool, built bool, out string) {
	top, sub, _ := strings.Cut(run, "/")
	key := testFile + "|" + top
	o, ok := witnessCache[key]
	if !ok {
		ctxOut := runOverlayVerbose(repo, testFile, "^"+top+"$")
		witnessCache[key] = ctxOut
		o = ctxOut
	}
	if strings.Contains(o, "[build failed]") || strings.Contains(o, "[setup failed]") || !strings.Contains(o, "=== RUN") {
		return false, false, o
	}
	name := top
	if sub != "" {
		name = top + "/" + strings.ReplaceAll(sub, " ", "_")
	}
	for _, line := range strings.Split(o, "\n") {
		t := strings.TrimSpace(line)
		if strings.HasPrefix(t, "--- FAIL: "+name+" ") {
			return true, true, o
		}
		if strings.HasPrefix(t, "--- PASS: "+name+" ") {
			return false, true, o
		}
	}
	// the (sub-)test did not run: treat as not built, so that the finding is reported as unverifiable rather than stale
	return false, false, "witness " + name + " did not run\n" + o
}

func runOverlayVerbose(repo, testFile, runPattern string) string {
	dir, err := os.MkdirTemp("", "govc-replay")
	if err != nil {
		return err.Error()
	}
	defer os.RemoveAll(dir)
	target := filepath.Join(repo, "zz_verif_replay_test.go")
	ov := map[string]map[string]string{"Replace": {target: testFile}}
	b, _ := json.Marshal(ov)
	ovPath := filepath.Join(dir, "overlay.json")
	os.WriteFile(ovPath, b, 0o644)
	ctx, cancel := context.WithTimeout(context.Background(), 180*time.Second)
	defer cancel()
	cmd := exec.CommandContext(ctx, "go", "test", "-overlay", ovPath, "-vet=off", "-count=1", "-v", "-timeout", "120s", "-run", runPattern, ".")
	cmd.Dir = repo
	cmd.Env = append(os.Environ(), "GOFLAGS=-mod=mod", "GOPROXY=off", "GOSUMDB=off", "GOTOOLCHAIN=local")
	var buf bytes.Buffer
	cmd.Stdout = &buf
	cmd.Stderr = &buf
	_ = cmd.Run()
	return buf.String()
}
