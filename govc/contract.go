package main

// Contract file parser: structured `//@` comments in /repo/verif_contracts.go.

import (
	"bufio"
	"fmt"
	"os"
	"strconv"
	"strings"
	"unicode"
)

// ---------------------------------------------------------------------------
// expression AST

type Expr interface{}

type (
	Ident   struct{ Name string }
	IntLit  struct{ V string }
	StrLit  struct{ V string }
	BoolLit struct{ V bool }
	NilLit  struct{}
	Unary   struct {
		Op string
		X  Expr
	}
	Binary struct {
		Op   string
		X, Y Expr
	}
	Cond struct{ C, A, B Expr }
	Call struct {
		Fn   string
		Args []Expr
	}
	Sel struct {
		X Expr
		F string
	}
	Index  struct{ X, I Expr }
	SliceE struct{ X, Lo, Hi Expr }
	Quant  struct {
		Forall bool
		Vars   []Param
		Body   Expr
		Pats   []Expr
	}
)

type Param struct{ Name, Type string }

// ---------------------------------------------------------------------------
// lexer

type ltoken struct {
	kind string // id, int, str, op, eof
	text string
}

func lex(s string) ([]ltoken, error) {
	var toks []ltoken
	i := 0
	for i < len(s) {
		c := s[i]
		switch {
		case c == ' ' || c == '\t' || c == '\n':
			i++
		case unicode.IsLetter(rune(c)) || c == '_' || c == '$':
			j := i + 1
			for j < len(s) && (unicode.IsLetter(rune(s[j])) || unicode.IsDigit(rune(s[j])) || s[j] == '_' || s[j] == '$') {
				j++
			}
			toks = append(toks, ltoken{"id", s[i:j]})
			i = j
		case unicode.IsDigit(rune(c)):
			j := i + 1
			for j < len(s) && (unicode.IsDigit(rune(s[j])) || s[j] == '.') {
				j++
			}
			toks = append(toks, ltoken{"int", s[i:j]})
			i = j
		case c == '"':
			j := i + 1
			for j < len(s) && s[j] != '"' {
				if s[j] == '\\' {
					j++
				}
				j++
			}
			if j >= len(s) {
				return nil, fmt.Errorf("unterminated string in %q", s)
			}
			v, err := strconv.Unquote(s[i : j+1])
			if err != nil {
				return nil, fmt.Errorf("bad string %s: %v", s[i:j+1], err)
			}
			toks = append(toks, ltoken{"str", v})
			i = j + 1
		default:
			ops := []string{"<==>", "==>", "::", "==", "!=", "<=", ">=", "&&", "||", "{}"}
			matched := false
			for _, op := range ops {
				if strings.HasPrefix(s[i:], op) {
					toks = append(toks, ltoken{"op", op})
					i += len(op)
					matched = true
					break
				}
			}
			if !matched {
				toks = append(toks, ltoken{"op", string(c)})
				i++
			}
		}
	}
	toks = append(toks, ltoken{"eof", ""})
	return toks, nil
}

type parser struct {
	toks []ltoken
	pos  int
	src  string
}

func (p *parser) peek() ltoken { return p.toks[p.pos] }
func (p *parser) next() ltoken { t := p.toks[p.pos]; p.pos++; return t }
func (p *parser) isOp(s string) bool {
	t := p.peek()
	return t.kind == "op" && t.text == s
}
func (p *parser) expectOp(s string) {
	if !p.isOp(s) {
		panic(fmt.Sprintf("contract syntax: expected %q at ltoken %d (%q) in: %s", s, p.pos, p.peek().text, p.src))
	}
	p.pos++
}

func parseExpr(src string) (e Expr, err error) {
	toks, err := lex(src)
	if err != nil {
		return nil, err
	}
	p := &parser{toks: toks, src: src}
	defer func() {
		if r := recover(); r != nil {
			err = fmt.Errorf("%v", r)
		}
	}()
	e = p.parseTop()
	if p.peek().kind != "eof" {
		return nil, fmt.Errorf("contract syntax: trailing %q in: %s", p.peek().text, src)
	}
	return e, nil
}

func (p *parser) parseTop() Expr {
	t := p.peek()
	if t.kind == "id" && (t.text == "forall" || t.text == "exists") {
		p.next()
		var vars []Param
		for {
			name := p.next()
			if name.kind != "id" {
				panic("contract syntax: quantifier variable expected in: " + p.src)
			}
			ty := p.parseTypeText()
			vars = append(vars, Param{name.text, ty})
			if p.isOp(",") {
				p.next()
				continue
			}
			break
		}
		p.expectOp("::")
		body := p.parseTop()
		return &Quant{Forall: t.text == "forall", Vars: vars, Body: body}
	}
	return p.parseImpl()
}

// parseTypeText reads a type like int, string, *Schema, []clearedValidation,
// map[string]Schema, interface{} and returns its source text.
func (p *parser) parseTypeText() string {
	var sb strings.Builder
	for {
		t := p.peek()
		if t.kind == "op" && (t.text == "*" || t.text == "[" || t.text == "]" || t.text == "." || t.text == "{}") {
			sb.WriteString(t.text)
			p.next()
			continue
		}
		if t.kind == "id" {
			sb.WriteString(t.text)
			p.next()
			// continue only if followed by '.', '[' (map[...]) or if we are inside map[...]
			n := p.peek()
			if n.kind == "op" && (n.text == "." || n.text == "{}" || (n.text == "[" && t.text == "map") || (n.text == "]" && strings.Count(sb.String(), "[") > strings.Count(sb.String(), "]"))) {
				continue
			}
			break
		}
		break
	}
	return sb.String()
}

func (p *parser) parseImpl() Expr {
	l := p.parseCond()
	if p.isOp("==>") {
		p.next()
		r := p.parseTopOrImpl()
		return &Binary{"==>", l, r}
	}
	if p.isOp("<==>") {
		p.next()
		r := p.parseCond()
		return &Binary{"<==>", l, r}
	}
	return l
}

func (p *parser) parseTopOrImpl() Expr {
	t := p.peek()
	if t.kind == "id" && (t.text == "forall" || t.text == "exists") {
		return p.parseTop()
	}
	return p.parseImpl()
}

func (p *parser) parseCond() Expr {
	c := p.parseBin(0)
	if p.isOp("?") {
		p.next()
		a := p.parseCond()
		p.expectOp(":")
		b := p.parseCond()
		return &Cond{c, a, b}
	}
	return c
}

var precs = map[string]int{"||": 1, "&&": 2, "==": 3, "!=": 3, "<": 3, "<=": 3, ">": 3, ">=": 3, "+": 4, "-": 4, "*": 5, "/": 5, "%": 5}

func (p *parser) parseBin(min int) Expr {
	l := p.parseUnary()
	for {
		t := p.peek()
		if t.kind != "op" {
			return l
		}
		pr, ok := precs[t.text]
		if !ok || pr <= min {
			return l
		}
		p.next()
		r := p.parseBin(pr)
		l = &Binary{t.text, l, r}
	}
}

func (p *parser) parseUnary() Expr {
	t := p.peek()
	if t.kind == "op" && (t.text == "!" || t.text == "-" || t.text == "*" || t.text == "&") {
		p.next()
		x := p.parseUnary()
		return &Unary{t.text, x}
	}
	return p.parsePostfix()
}

func (p *parser) parsePostfix() Expr {
	var e Expr
	t := p.next()
	switch t.kind {
	case "int":
		e = &IntLit{t.text}
	case "str":
		e = &StrLit{t.text}
	case "id":
		switch t.text {
		case "true":
			e = &BoolLit{true}
		case "false":
			e = &BoolLit{false}
		case "nil":
			e = &NilLit{}
		default:
			if p.isOp("(") {
				p.next()
				var args []Expr
				for !p.isOp(")") {
					args = append(args, p.parseTop())
					if p.isOp(",") {
						p.next()
					}
				}
				p.expectOp(")")
				e = &Call{t.text, args}
			} else {
				e = &Ident{t.text}
			}
		}
	case "op":
		if t.text == "(" {
			e = p.parseTop()
			p.expectOp(")")
		} else {
			panic(fmt.Sprintf("contract syntax: unexpected %q in: %s", t.text, p.src))
		}
	default:
		panic("contract syntax: unexpected end in: " + p.src)
	}
	for {
		if p.isOp(".") {
			p.next()
			f := p.next()
			e = &Sel{e, f.text}
			continue
		}
		if p.isOp("[") {
			p.next()
			var lo, hi Expr
			if !p.isOp(":") {
				lo = p.parseTop()
			}
			if p.isOp(":") {
				p.next()
				if !p.isOp("]") {
					hi = p.parseTop()
				}
				p.expectOp("]")
				e = &SliceE{e, lo, hi}
				continue
			}
			p.expectOp("]")
			e = &Index{e, lo}
			continue
		}
		return e
	}
}

// ---------------------------------------------------------------------------
// contract file

type Clause struct {
	Kind  string // requires, ensures, invariant, decreases, assigns
	Loop  int    // for invariant / loop decreases; -1 otherwise
	Src   string
	E     Expr
	Items []Expr // for assigns
	Props []string
	Name  string
	// call-site clauses (Kind "callsite"): the callee's key; Loop holds the ordinal of the call site (by source position)
	Callee string
}

type FuncContract struct {
	Key        string
	Props      []string
	Clauses    []*Clause
	Assigns    *Clause // nil = unspecified (assigns everything)
	Pure       bool
	Trusted    bool   // contract assumed, body not verified (must be listed in evidence)
	Why        string // reason when trusted
	Strings    string
	NoInline   bool
	Inline     []string // callees to inline although they have a contract (lemma functions that prove laws about them)
	Chained    bool     // later ensures may use earlier ones
	AppendView bool     // state the element view of append results with sla-triggers (needed for quantified slice facts)
	Line       int
}

type Define struct {
	Name   string
	Params []Param
	Ret    string
	Body   Expr
	Rec    bool
	Src    string
}

type SpecFn struct {
	Name   string
	Params []string
	Ret    string
}

type Lemma struct {
	Name  string
	Props []string
	E     Expr
	Src   string
	Hyps  []Expr
}

type Contracts struct {
	Opaque  map[string]bool // kinds whose codecs are opaque enc_T/dec_T behind json.Marshal/Unmarshal
	Funcs   map[string]*FuncContract
	Order   []string
	Defines map[string]*Define
	SpecFns map[string]*SpecFn
	Axioms  []*Clause
	Lemmas  []*Lemma
	Smt     []string
	Ifaces  map[string]*FuncContract // "ResolutionCache.Get"
	Exts    map[string]*FuncContract // external functions: "strings.HasPrefix"
	ExtSigs map[string][]Param
	Ghosts  []Param
}

const anyLoop = -2 // an invariant of every loop of the function (keeps clauses)

var clauseKw = map[string]bool{"excluding": true, "uses": true, "law": true, "defines": true, "assumes": true, "requires": true, "ensures": true, "assigns": true, "loop": true, "decreases": true, "property": true,
	"call": true, "ret": true, "keeps": true, "pure": true, "inline": true, "appendview": true, "chained": true, "trusted": true, "strings": true, "noinline": true, "params": true}

func parseProps(s *string) []string {
	// leading "[C01,C02]" tag
	t := strings.TrimSpace(*s)
	if strings.HasPrefix(t, "[") {
		if i := strings.Index(t, "]"); i > 0 {
			tag := t[1:i]
			ok := true
			for _, p := range strings.Split(tag, ",") {
				p = strings.TrimSpace(p)
				if len(p) < 2 || p[0] != 'C' {
					ok = false
				}
			}
			if ok {
				*s = strings.TrimSpace(t[i+1:])
				var out []string
				for _, p := range strings.Split(tag, ",") {
					out = append(out, strings.TrimSpace(p))
				}
				return out
			}
		}
	}
	return nil
}

func loadContracts(path string) (*Contracts, error) {
	f, err := os.Open(path)
	if err != nil {
		return nil, err
	}
	defer f.Close()
	c := &Contracts{Funcs: map[string]*FuncContract{}, Defines: map[string]*Define{}, SpecFns: map[string]*SpecFn{},
		Ifaces: map[string]*FuncContract{}, Exts: map[string]*FuncContract{}, ExtSigs: map[string][]Param{}}
	// gather logical lines: a line whose first word is not a keyword continues the previous one
	type lline struct {
		text string
		no   int
	}
	var lines []lline
	sc := bufio.NewScanner(f)
	sc.Buffer(make([]byte, 1<<20), 1<<20)
	no := 0
	top := map[string]bool{"func": true, "define": true, "specfn": true, "axiom": true, "lemma": true, "smt": true, "iface": true, "ext": true, "ghost": true, "opaque": true}
	for sc.Scan() {
		no++
		t := sc.Text()
		if !strings.HasPrefix(t, "//@") {
			continue
		}
		body := strings.TrimSpace(t[3:])
		if body == "" || strings.HasPrefix(body, "#") {
			continue
		}
		w := firstWord(body)
		if clauseKw[w] || top[w] || len(lines) == 0 {
			lines = append(lines, lline{body, no})
		} else {
			lines[len(lines)-1].text += " " + body
		}
	}
	var cur *FuncContract
	for _, l := range lines {
		w := firstWord(l.text)
		rest := strings.TrimSpace(l.text[len(w):])
		fail := func(err error) error { return fmt.Errorf("%s:%d: %v", path, l.no, err) }
		switch w {
		case "func", "iface", "ext":
			cur = &FuncContract{Key: rest, Line: l.no}
			switch w {
			case "func":
				if _, dup := c.Funcs[rest]; dup {
					return nil, fail(fmt.Errorf("duplicate contract for %s", rest))
				}
				c.Funcs[rest] = cur
				c.Order = append(c.Order, rest)
			case "iface":
				c.Ifaces[rest] = cur
			case "ext":
				c.Exts[rest] = cur
				cur.Trusted = true
			}
		case "params":
			// parameter names for ext / iface contracts:  params s string, p string
			var ps []Param
			for _, part := range splitTop(rest, ',') {
				part = strings.TrimSpace(part)
				i := strings.IndexAny(part, " \t")
				if i < 0 {
					ps = append(ps, Param{part, ""})
				} else {
					ps = append(ps, Param{part[:i], strings.TrimSpace(part[i:])})
				}
			}
			c.ExtSigs[cur.Key] = ps
		case "property":
			for _, p := range strings.FieldsFunc(rest, func(r rune) bool { return r == ',' || r == ' ' }) {
				cur.Props = append(cur.Props, p)
			}
		case "pure":
			cur.Pure = true
		case "appendview":
			cur.AppendView = true
		case "chained":
			cur.Chained = true
		case "inline":
			for _, k := range strings.Split(rest, ",") {
				cur.Inline = append(cur.Inline, strings.TrimSpace(k))
			}
		case "noinline":
			cur.NoInline = true
		case "trusted":
			cur.Trusted = true
			cur.Why = rest
		case "strings":
			cur.Strings = rest
		case "opaque":
			if c.Opaque == nil {
				c.Opaque = map[string]bool{}
			}
			for _, k := range strings.FieldsFunc(rest, func(r rune) bool { return r == ',' || r == ' ' }) {
				c.Opaque[k] = true
			}
		case "ghost":
			// ghost name type   — a ghost variable of the whole run (changed only through contracts)
			fs := strings.Fields(rest)
			if len(fs) < 2 {
				return nil, fail(fmt.Errorf("bad ghost declaration"))
			}
			c.Ghosts = append(c.Ghosts, Param{fs[0], strings.TrimSpace(rest[len(fs[0]):])})
		case "requires", "ensures", "decreases", "defines", "assumes", "law", "excluding":
			props := parseProps(&rest)
			name := ""
			if i := strings.Index(rest, "@@"); i >= 0 { // optional clause name:  name @@ expr
				name = strings.TrimSpace(rest[:i])
				rest = strings.TrimSpace(rest[i+2:])
			}
			e, err := parseExpr(rest)
			if err != nil {
				return nil, fail(err)
			}
			cur.Clauses = append(cur.Clauses, &Clause{Kind: w, Loop: -1, Src: rest, E: e, Props: props, Name: name})
		case "uses":
			// uses lemmaFunc.lawName(arg, ...): instantiate a law proved in a lemma function
			i := strings.Index(rest, "(")
			j := strings.LastIndex(rest, ")")
			if i < 0 || j < i {
				return nil, fail(fmt.Errorf("bad uses clause"))
			}
			cl := &Clause{Kind: "uses", Loop: -1, Src: rest, Name: strings.TrimSpace(rest[:i])}
			for _, a := range splitTop(rest[i+1:j], ',') {
				e, err := parseExpr(strings.TrimSpace(a))
				if err != nil {
					return nil, fail(err)
				}
				cl.Items = append(cl.Items, e)
			}
			cur.Clauses = append(cur.Clauses, cl)
		case "assigns":
			cl := &Clause{Kind: "assigns", Loop: -1, Src: rest}
			if rest != "nothing" {
				for _, it := range splitTop(rest, ',') {
					e, err := parseExpr(strings.TrimSpace(it))
					if err != nil {
						return nil, fail(err)
					}
					cl.Items = append(cl.Items, e)
				}
			}
			if cur.Assigns != nil {
				cur.Assigns.Items = append(cur.Assigns.Items, cl.Items...)
				cur.Assigns.Src += ", " + rest
			} else {
				cur.Assigns = cl
			}
		case "loop":
			// loop N invariant E | loop N decreases E
			fs := strings.Fields(rest)
			if len(fs) < 3 {
				return nil, fail(fmt.Errorf("bad loop clause"))
			}
			n, err := strconv.Atoi(fs[0])
			if err != nil {
				return nil, fail(err)
			}
			kind := fs[1]
			src := strings.TrimSpace(rest[strings.Index(rest, kind)+len(kind):])
			props := parseProps(&src)
			lname := ""
			if i := strings.Index(src, "@@"); i >= 0 { // optional name, kept in the clause text of the obligation
				lname = strings.TrimSpace(src[:i])
				src = strings.TrimSpace(src[i+2:])
			}
			e, err := parseExpr(src)
			if err != nil {
				return nil, fail(err)
			}
			if lname != "" {
				src = lname + " @@ " + src
			}
			cur.Clauses = append(cur.Clauses, &Clause{Kind: kind, Loop: n, Src: src, E: e, Props: props, Name: lname})
		case "call":
			// call <callee> <k> requires [props] name @@ E: an obligation at the k-th call site (by source position) of
			// <callee> in this function, evaluated just before the call; arg_<param> names the actual arguments
			fs := strings.Fields(rest)
			if len(fs) < 4 || fs[2] != "requires" {
				return nil, fail(fmt.Errorf("bad call clause (call <callee> <k> requires E)"))
			}
			n, err := strconv.Atoi(fs[1])
			if err != nil {
				return nil, fail(err)
			}
			src := strings.TrimSpace(rest[strings.Index(rest, " requires ")+len(" requires "):])
			props := parseProps(&src)
			name := ""
			if i := strings.Index(src, "@@"); i >= 0 {
				name = strings.TrimSpace(src[:i])
				src = strings.TrimSpace(src[i+2:])
			}
			e, err := parseExpr(src)
			if err != nil {
				return nil, fail(err)
			}
			cur.Clauses = append(cur.Clauses, &Clause{Kind: "callsite", Loop: n, Callee: fs[0], Src: src, E: e, Props: props, Name: name})
		case "ret":
			// ret <k> ensures [props] name @@ E: a postcondition of the k-th return statement (source order) only
			fs := strings.Fields(rest)
			if len(fs) < 3 || fs[1] != "ensures" {
				return nil, fail(fmt.Errorf("bad ret clause (ret <k> ensures E)"))
			}
			n, err := strconv.Atoi(fs[0])
			if err != nil {
				return nil, fail(err)
			}
			src := strings.TrimSpace(rest[strings.Index(rest, " ensures ")+len(" ensures "):])
			props := parseProps(&src)
			name := ""
			if i := strings.Index(src, "@@"); i >= 0 {
				name = strings.TrimSpace(src[:i])
				src = strings.TrimSpace(src[i+2:])
			}
			e, err := parseExpr(src)
			if err != nil {
				return nil, fail(err)
			}
			cur.Clauses = append(cur.Clauses, &Clause{Kind: "retsite", Loop: n, Src: src, E: e, Props: props, Name: name})
		case "keeps":
			// keeps [props] g1, g2: the ghost variables have their entry value at every return and at every loop head
			props := parseProps(&rest)
			for _, g := range splitTop(rest, ',') {
				g = strings.TrimSpace(g)
				src := g + " == old(" + g + ")"
				e, err := parseExpr(src)
				if err != nil {
					return nil, fail(err)
				}
				cur.Clauses = append(cur.Clauses, &Clause{Kind: "ensures", Loop: -1, Src: src, E: e, Props: props, Name: "keeps-" + g})
				cur.Clauses = append(cur.Clauses, &Clause{Kind: "invariant", Loop: anyLoop, Src: src, E: e, Props: props})
			}
		case "define":
			d, err := parseDefine(rest)
			if err != nil {
				return nil, fail(err)
			}
			c.Defines[d.Name] = d
		case "specfn":
			// specfn name(T1, T2) R
			i := strings.Index(rest, "(")
			j := strings.LastIndex(rest, ")")
			if i < 0 || j < i {
				return nil, fail(fmt.Errorf("bad specfn"))
			}
			sf := &SpecFn{Name: strings.TrimSpace(rest[:i]), Ret: strings.TrimSpace(rest[j+1:])}
			for _, p := range splitTop(rest[i+1:j], ',') {
				if p = strings.TrimSpace(p); p != "" {
					sf.Params = append(sf.Params, p)
				}
			}
			c.SpecFns[sf.Name] = sf
		case "axiom":
			e, err := parseExpr(rest)
			if err != nil {
				return nil, fail(err)
			}
			c.Axioms = append(c.Axioms, &Clause{Kind: "axiom", Src: rest, E: e})
		case "lemma":
			// lemma name [props] : expr
			i := strings.Index(rest, ":")
			if i < 0 {
				return nil, fail(fmt.Errorf("bad lemma"))
			}
			head := strings.TrimSpace(rest[:i])
			src := strings.TrimSpace(rest[i+1:])
			var props []string
			if k := strings.Index(head, "["); k >= 0 {
				tag := head[k:]
				head = strings.TrimSpace(head[:k])
				props = parseProps(&tag)
			}
			e, err := parseExpr(src)
			if err != nil {
				return nil, fail(err)
			}
			c.Lemmas = append(c.Lemmas, &Lemma{Name: head, Props: props, E: e, Src: src})
		case "smt":
			c.Smt = append(c.Smt, rest)
		default:
			return nil, fail(fmt.Errorf("unknown directive %q", w))
		}
	}
	return c, nil
}

func firstWord(s string) string {
	i := strings.IndexAny(s, " \t")
	if i < 0 {
		return s
	}
	return s[:i]
}

func splitTop(s string, sep byte) []string {
	var out []string
	d := 0
	inStr := false
	start := 0
	for i := 0; i < len(s); i++ {
		c := s[i]
		if c == '"' && (i == 0 || s[i-1] != '\\') {
			inStr = !inStr
		}
		if inStr {
			continue
		}
		switch c {
		case '(', '[', '{':
			d++
		case ')', ']', '}':
			d--
		default:
			if c == sep && d == 0 {
				out = append(out, s[start:i])
				start = i + 1
			}
		}
	}
	out = append(out, s[start:])
	return out
}

// define [rec] name(p1 T1, p2 T2) R = expr
func parseDefine(rest string) (*Define, error) {
	d := &Define{Src: rest}
	if strings.HasPrefix(rest, "rec ") {
		d.Rec = true
		rest = strings.TrimSpace(rest[4:])
	}
	i := strings.Index(rest, "(")
	if i < 0 {
		return nil, fmt.Errorf("bad define")
	}
	d.Name = strings.TrimSpace(rest[:i])
	// find matching paren
	depth := 0
	j := i
	for ; j < len(rest); j++ {
		if rest[j] == '(' {
			depth++
		} else if rest[j] == ')' {
			depth--
			if depth == 0 {
				break
			}
		}
	}
	for _, p := range splitTop(rest[i+1:j], ',') {
		p = strings.TrimSpace(p)
		if p == "" {
			continue
		}
		k := strings.IndexAny(p, " \t")
		if k < 0 {
			return nil, fmt.Errorf("bad define param %q", p)
		}
		d.Params = append(d.Params, Param{p[:k], strings.TrimSpace(p[k:])})
	}
	tail := rest[j+1:]
	k := strings.Index(tail, "=")
	if k < 0 {
		return nil, fmt.Errorf("define without body")
	}
	d.Ret = strings.TrimSpace(tail[:k])
	e, err := parseExpr(strings.TrimSpace(tail[k+1:]))
	if err != nil {
		return nil, err
	}
	d.Body = e
	return d, nil
}
