package main

// SMT-level infrastructure: sorts, values, declarations, heap components.

import (
	"fmt"
	"go/types"
	"sort"
	"strings"
)

// Val is a symbolic value: an SMT term with its sort and (when known) Go type.
// Struct / slice / iface values built from components keep Parts so that
// selectors simplify syntactically.
type Val struct {
	e     string
	Sort  string
	T     types.Type
	Ctor  string
	Parts []*Val
	Tag   string // for pointer values: partition of the designated leaf cell ("" = unknown / stand-alone)
}

func (v *Val) E() string {
	if v.e != "" {
		return v.e
	}
	if v.Ctor != "" {
		if len(v.Parts) == 0 {
			return v.Ctor
		}
		var sb strings.Builder
		sb.WriteString("(" + v.Ctor)
		for _, p := range v.Parts {
			sb.WriteString(" " + p.E())
		}
		sb.WriteString(")")
		v.e = sb.String()
		return v.e
	}
	panic("empty Val")
}

func mkVal(e, sort string, t types.Type) *Val { return &Val{e: e, Sort: sort, T: t} }

func boolVal(e string) *Val { return &Val{e: e, Sort: "Bool", T: types.Typ[types.Bool]} }
func intVal(e string) *Val  { return &Val{e: e, Sort: "Int", T: types.Typ[types.Int]} }

func sanitize(s string) string {
	var sb strings.Builder
	for _, r := range s {
		switch {
		case r >= 'a' && r <= 'z', r >= 'A' && r <= 'Z', r >= '0' && r <= '9', r == '_':
			sb.WriteRune(r)
		case r == '.' || r == '/' || r == '$' || r == '-':
			sb.WriteRune('_')
		case r == '*':
			sb.WriteString("P")
		case r == '[' || r == ']':
			sb.WriteString("A")
		default:
			sb.WriteString("_")
		}
	}
	return sb.String()
}

// smtString renders a Go string as an SMT-LIB 2.6 string literal.
func smtString(s string) string {
	var sb strings.Builder
	sb.WriteByte('"')
	for _, r := range s {
		switch {
		case r == '"':
			sb.WriteString("\"\"")
		case r == '\\':
			sb.WriteString("\\u{5c}")
		case r >= 32 && r < 127:
			sb.WriteRune(r)
		default:
			sb.WriteString(fmt.Sprintf("\\u{%x}", r))
		}
	}
	sb.WriteByte('"')
	return sb.String()
}

func and(xs ...string) string {
	var ys []string
	for _, x := range xs {
		if x == "true" || x == "" {
			continue
		}
		if x == "false" {
			return "false"
		}
		ys = append(ys, x)
	}
	switch len(ys) {
	case 0:
		return "true"
	case 1:
		return ys[0]
	}
	return "(and " + strings.Join(ys, " ") + ")"
}

func or(xs ...string) string {
	var ys []string
	for _, x := range xs {
		if x == "false" || x == "" {
			continue
		}
		if x == "true" {
			return "true"
		}
		ys = append(ys, x)
	}
	switch len(ys) {
	case 0:
		return "false"
	case 1:
		return ys[0]
	}
	return "(or " + strings.Join(ys, " ") + ")"
}

func not(x string) string {
	if x == "true" {
		return "false"
	}
	if x == "false" {
		return "true"
	}
	if strings.HasPrefix(x, "(not ") && balancedOne(x[5:len(x)-1]) {
		return x[5 : len(x)-1]
	}
	return "(not " + x + ")"
}

func balancedOne(s string) bool {
	// true if s is a single s-expression (atom or one balanced list)
	if s == "" {
		return false
	}
	if s[0] != '(' {
		return !strings.ContainsAny(s, " ()")
	}
	d := 0
	inStr := false
	for i := 0; i < len(s); i++ {
		c := s[i]
		if c == '"' {
			inStr = !inStr
		}
		if inStr {
			continue
		}
		if c == '(' {
			d++
		} else if c == ')' {
			d--
			if d == 0 && i != len(s)-1 {
				return false
			}
		}
	}
	return d == 0
}

func implies(a, b string) string {
	if a == "true" {
		return b
	}
	if b == "true" {
		return "true"
	}
	return "(=> " + a + " " + b + ")"
}

func eq(a, b string) string {
	if a == b {
		return "true"
	}
	return "(= " + a + " " + b + ")"
}

func ite(c, a, b string) string {
	if c == "true" {
		return a
	}
	if c == "false" {
		return b
	}
	if a == b {
		return a
	}
	return "(ite " + c + " " + a + " " + b + ")"
}

// ---------------------------------------------------------------------------
// Sort universe

// Universe holds everything that is global to one SMT query family: declared
// sorts, functions, axioms.  One Universe per verified top-level function.
type Universe struct {
	decls    []string
	declSet  map[string]bool
	structs  map[string]*types.Struct // datatype name -> struct
	anon     map[string]string        // types string -> datatype name
	typeIDs  map[string]int
	typeList []types.Type
	faTags   map[string]int
	comps    []string
	compSort map[string]string
	mapKinds map[string][2]string // map comp suffix -> key/val sort
	boxes    map[string]bool
	nfresh   int
	genConsts map[string]bool
	epochs    map[int]epochRel
	accessed  map[string]bool
	epochAlloc map[int]string // allocation counter at the creation of an epoch
	onLazyFact func(string)          // set by the translator: where relations of lazily declared constants go
	mapValType map[string]types.Type // MV_ component -> Go type of the map values
	sortTypes  map[string]types.Type // struct sort -> a Go type with that sort (for values read out of raw SMT arrays)
}

// epochRel: how the components of an epoch relate to those of its parent epoch (nothing known when regions is nil)
type epochRel struct {
	parent   int
	regions  []string
	allocPre string
	merge    []epochEdge // a control-flow merge: under cond the components equal those of epoch
	keep     string      // after a havoc of everything: cells a satisfying keep(a) still hold their parent-epoch value
	keepFor  func(comp string) string // the same, per partition
	keepMaps string      // the same for map components (a = the map)
	keepMapsGround map[string][][2]string // map component -> (guard, map): the map keeps its contents
}

type epochEdge struct {
	cond  string
	epoch int
}

func newUniverse() *Universe {
	u := &Universe{declSet: map[string]bool{}, structs: map[string]*types.Struct{}, anon: map[string]string{},
		typeIDs: map[string]int{}, faTags: map[string]int{}, compSort: map[string]string{}, mapKinds: map[string][2]string{}, boxes: map[string]bool{}, genConsts: map[string]bool{}, epochs: map[int]epochRel{}, accessed: map[string]bool{}, epochAlloc: map[int]string{}}
	u.decl("Slice", "(declare-datatypes ((Slice 0)) (((mk_slice (sl_arr Int) (sl_off Int) (sl_len Int) (sl_cap Int)))))")
	u.decl("Iface", "(declare-datatypes ((Iface 0)) (((mk_iface (if_t Int) (if_v Int)))))")
	u.decl("ftag", "(declare-fun ftag (Int) Int)")
	u.decl("fbase", "(declare-fun fbase (Int) Int)")
	u.decl("obase", "(declare-fun obase (Int) Int)")
	u.decl("eidx", "(declare-fun eidx (Int) Int)")
	u.decl("ea", "(declare-fun ea (Int Int) Int)")
	u.decl("ea_ax", "(assert (forall ((a Int) (i Int)) (! (and (= (ftag (ea a i)) 1) (= (fbase (ea a i)) a) (= (eidx (ea a i)) i) (= (obase (ea a i)) (obase a)) (> (ea a i) 0)) :pattern ((ea a i)))))")
	u.decl("obase0", "(assert (= (obase 0) 0))")
	return u
}

func (u *Universe) decl(key, text string) {
	if u.declSet[key] {
		return
	}
	u.declSet[key] = true
	u.decls = append(u.decls, text)
}

func (u *Universe) fresh(prefix string) string {
	u.nfresh++
	return fmt.Sprintf("%s_%d", prefix, u.nfresh)
}

func (u *Universe) freshConst(prefix, sort string) string {
	n := u.fresh(prefix)
	u.decls = append(u.decls, fmt.Sprintf("(declare-const %s %s)", n, sort))
	u.genConsts[n] = true
	return n
}

func (u *Universe) declConst(name, sort string) {
	u.decl("const:"+name, fmt.Sprintf("(declare-const %s %s)", name, sort))
}

// typeID gives a distinct positive integer for each Go type used as a dynamic
// interface type.
func (u *Universe) typeID(t types.Type) int {
	k := types.TypeString(t, nil)
	if id, ok := u.typeIDs[k]; ok {
		return id
	}
	id := len(u.typeIDs) + 1
	u.typeIDs[k] = id
	u.typeList = append(u.typeList, t)
	return id
}

// structCanon: package-level name of a struct type, by identity of the underlying *types.Struct. A function-local
// `type Alias OperationProps` shares its underlying struct with OperationProps: both get the same sort, field-address
// functions and heap partitions (a pointer conversion between them is the identity).
var structCanon = map[*types.Struct]string{}

func registerStructs(pkg *types.Package) {
	sc := pkg.Scope()
	for _, name := range sc.Names() {
		tn, ok := sc.Lookup(name).(*types.TypeName)
		if !ok || tn.IsAlias() {
			continue
		}
		n, ok := tn.Type().(*types.Named)
		if !ok {
			continue
		}
		if st, ok := n.Underlying().(*types.Struct); ok {
			if _, dup := structCanon[st]; !dup {
				structCanon[st] = structName0(n)
			}
		}
	}
}

func structName(t types.Type) string {
	if n, ok := t.(*types.Named); ok {
		if n.Obj().Pkg() != nil {
			// `type A B` (package-level or function-local) shares B's underlying struct: same sort, field addresses, partitions
			if st, ok := n.Underlying().(*types.Struct); ok {
				if c, ok := structCanon[st]; ok {
					return c
				}
			}
		}
	}
	return structName0(t)
}

func structName0(t types.Type) string {
	if n, ok := t.(*types.Named); ok {
		name := n.Obj().Name()
		if n.Obj().Pkg() != nil && n.Obj().Pkg().Path() != "github.com/go-openapi/spec" {
			name = sanitize(n.Obj().Pkg().Path()) + "_" + name
		}
		return name
	}
	return ""
}

// sortOf maps a Go type to its SMT sort, declaring datatypes on demand.
func (u *Universe) sortOf(t types.Type) string {
	switch tt := t.(type) {
	case *types.Named:
		if st, ok := tt.Underlying().(*types.Struct); ok {
			sn := u.structSort(structName(tt), st)
			if u.sortTypes == nil {
				u.sortTypes = map[string]types.Type{}
			}
			if _, ok := u.sortTypes[sn]; !ok {
				u.sortTypes[sn] = tt
			}
			return sn
		}
		return u.sortOf(tt.Underlying())
	case *types.Alias:
		return u.sortOf(types.Unalias(tt))
	case *types.Basic:
		switch {
		case tt.Info()&types.IsBoolean != 0:
			return "Bool"
		case tt.Info()&types.IsInteger != 0:
			return "Int"
		case tt.Info()&types.IsFloat != 0:
			return "Real"
		case tt.Info()&types.IsString != 0:
			return "String"
		case tt.Kind() == types.UnsafePointer:
			return "Int"
		case tt.Kind() == types.UntypedNil:
			return "Int"
		}
		return "Int"
	case *types.Pointer, *types.Map, *types.Chan, *types.Signature:
		return "Int"
	case *types.Slice:
		return "Slice"
	case *types.Interface:
		return "Iface"
	case *types.Struct:
		k := types.TypeString(tt, nil)
		if n, ok := u.anon[k]; ok {
			return n
		}
		n := fmt.Sprintf("anon%d", len(u.anon))
		u.anon[k] = "S_" + sanitize(n)
		return u.structSort(n, tt)
	case *types.Array:
		return "(Array Int " + u.sortOf(tt.Elem()) + ")"
	case *types.Tuple:
		return "Tuple"
	}
	panic(fmt.Sprintf("sortOf: unsupported type %T %v", t, t))
}

func (u *Universe) structSort(name string, st *types.Struct) string {
	sname := "S_" + sanitize(name)
	if _, ok := u.structs[sname]; ok {
		return sname
	}
	u.structs[sname] = st
	if st.NumFields() == 0 {
		u.decl("dt:"+sname, fmt.Sprintf("(declare-datatypes ((%s 0)) (((mk_%s))))", sname, sname))
		return sname
	}
	var fs []string
	for i := 0; i < st.NumFields(); i++ {
		f := st.Field(i)
		fs = append(fs, fmt.Sprintf("(%s_%s %s)", sname, sanitize(f.Name()), u.sortOf(f.Type())))
	}
	u.decl("dt:"+sname, fmt.Sprintf("(declare-datatypes ((%s 0)) (((mk_%s %s))))", sname, sname, strings.Join(fs, " ")))
	return sname
}

func structOf(t types.Type) (*types.Struct, string) {
	switch tt := t.(type) {
	case *types.Named:
		if st, ok := tt.Underlying().(*types.Struct); ok {
			return st, structName(tt)
		}
	case *types.Alias:
		return structOf(types.Unalias(tt))
	case *types.Struct:
		return tt, ""
	}
	return nil, ""
}

// structInfo returns the struct and the datatype base name for a struct type.
func (u *Universe) structInfo(t types.Type) (*types.Struct, string) {
	st, _ := structOf(t)
	if st == nil {
		return nil, ""
	}
	return st, u.sortOf(t)
}

// field selection on a struct value
func (u *Universe) fieldOf(v *Val, i int) *Val {
	st, sname := u.structInfo(v.T)
	if st == nil {
		panic(fmt.Sprintf("fieldOf on non-struct %v", v.T))
	}
	f := st.Field(i)
	if v.Parts != nil {
		return v.Parts[i]
	}
	return mkVal(fmt.Sprintf("(%s_%s %s)", sname, sanitize(f.Name()), v.E()), u.sortOf(f.Type()), f.Type())
}

func (u *Universe) mkStruct(t types.Type, parts []*Val) *Val {
	_, sname := u.structInfo(t)
	return &Val{Sort: sname, T: t, Ctor: "mk_" + sname, Parts: parts}
}

func mkSlice(t types.Type, arr, off, ln, cp string) *Val {
	return &Val{Sort: "Slice", T: t, Ctor: "mk_slice", Parts: []*Val{intVal(arr), intVal(off), intVal(ln), intVal(cp)}}
}

func slPart(v *Val, i int) string {
	if v.Parts != nil {
		return v.Parts[i].E()
	}
	return "(" + [...]string{"sl_arr", "sl_off", "sl_len", "sl_cap"}[i] + " " + v.E() + ")"
}

func mkIface(t types.Type, ty, val string) *Val {
	return &Val{Sort: "Iface", T: t, Ctor: "mk_iface", Parts: []*Val{intVal(ty), intVal(val)}}
}

func ifPart(v *Val, i int) string {
	if v.Parts != nil {
		return v.Parts[i].E()
	}
	return "(" + [...]string{"if_t", "if_v"}[i] + " " + v.E() + ")"
}

// zero value of a Go type
func (u *Universe) zero(t types.Type) *Val {
	s := u.sortOf(t)
	switch s {
	case "Bool":
		return mkVal("false", s, t)
	case "Int":
		return mkVal("0", s, t)
	case "Real":
		return mkVal("0.0", s, t)
	case "String":
		return mkVal("\"\"", s, t)
	case "Slice":
		return mkSlice(t, "0", "0", "0", "0")
	case "Iface":
		return mkIface(t, "0", "0")
	}
	if st, _ := u.structInfo(t); st != nil {
		var parts []*Val
		for i := 0; i < st.NumFields(); i++ {
			parts = append(parts, u.zero(st.Field(i).Type()))
		}
		return u.mkStruct(t, parts)
	}
	if at, ok := t.Underlying().(*types.Array); ok {
		return mkVal(fmt.Sprintf("((as const %s) %s)", s, u.zero(at.Elem()).E()), s, t)
	}
	panic("zero: " + s)
}

// box: interface payload encoding.  Int-sorted payloads are stored directly.
func (u *Universe) box(v *Val) string {
	if v.Sort == "Int" {
		return v.E()
	}
	fn := "box_" + sanitize(v.Sort)
	u.ensureBox(v.Sort)
	return "(" + fn + " " + v.E() + ")"
}

func (u *Universe) unbox(e string, sort string) string {
	if sort == "Int" {
		return e
	}
	u.ensureBox(sort)
	return "(unbox_" + sanitize(sort) + " " + e + ")"
}

func (u *Universe) ensureBox(sort string) {
	if u.boxes[sort] {
		return
	}
	u.boxes[sort] = true
	s := sanitize(sort)
	u.decls = append(u.decls, fmt.Sprintf("(declare-fun box_%s (%s) Int)", s, sort))
	u.decls = append(u.decls, fmt.Sprintf("(declare-fun unbox_%s (Int) %s)", s, sort))
	u.decls = append(u.decls, fmt.Sprintf("(assert (forall ((x %s)) (! (= (unbox_%s (box_%s x)) x) :pattern ((box_%s x)))))", sort, s, s, s))
}

// ---------------------------------------------------------------------------
// addresses

// fa returns the address of field i of the struct of type t located at addr.
func (u *Universe) fa(addr string, t types.Type, i int) string {
	st, sname := u.structInfo(t)
	f := st.Field(i)
	fn := "fa_" + sname[2:] + "_" + sanitize(f.Name())
	if _, ok := u.faTags[fn]; !ok {
		tag := len(u.faTags) + 2
		u.faTags[fn] = tag
		u.decls = append(u.decls, fmt.Sprintf("(declare-fun %s (Int) Int)", fn))
		u.decls = append(u.decls, fmt.Sprintf("(assert (forall ((a Int)) (! (and (= (ftag (%s a)) %d) (= (fbase (%s a)) a) (= (obase (%s a)) (obase a)) (> (%s a) 0)) :pattern ((%s a)))))", fn, tag, fn, fn, fn, fn))
	}
	return "(" + fn + " " + addr + ")"
}

func ea(arr, idx string) string { return "(ea " + arr + " " + idx + ")" }

// sla is the address of element i of slice s.  Opaque slices go through the function sla, whose
// applications are good E-matching triggers (no arithmetic inside).
func (u *Universe) sla(s *Val, i string) string {
	if s.Parts != nil {
		return ea(slPart(s, 0), add(slPart(s, 1), i))
	}
	u.decl("sla", "(declare-fun sla (Slice Int) Int)")
	u.decl("sla_ax", "(assert (forall ((s Slice) (i Int)) (! (= (sla s i) (ea (sl_arr s) (+ (sl_off s) i))) :pattern ((sla s i)))))")
	return "(sla " + s.E() + " " + i + ")"
}

func add(a, b string) string {
	if a == "0" {
		return b
	}
	if b == "0" {
		return a
	}
	return "(+ " + a + " " + b + ")"
}

// ---------------------------------------------------------------------------
// heap components

func compForSort(u *Universe, t types.Type) string {
	switch tt := t.Underlying().(type) {
	case *types.Basic:
		switch {
		case tt.Info()&types.IsBoolean != 0:
			return "MBool"
		case tt.Info()&types.IsInteger != 0:
			return "MInt"
		case tt.Info()&types.IsFloat != 0:
			return "MReal"
		case tt.Info()&types.IsString != 0:
			return "MStr"
		}
		return "MPtr"
	case *types.Pointer, *types.Map, *types.Chan, *types.Signature:
		return "MPtr"
	case *types.Slice:
		return "MSlice"
	case *types.Interface:
		return "MIface"
	}
	return ""
}

var baseCompSort = map[string]string{
	"MBool": "(Array Int Bool)", "MInt": "(Array Int Int)", "MReal": "(Array Int Real)", "MStr": "(Array Int String)",
	"MPtr": "(Array Int Int)", "MSlice": "(Array Int Slice)", "MIface": "(Array Int Iface)",
	"ALLOC": "Int",
	"GCnt":  "(Array Int (Array String Int))", "GLast": "(Array Int (Array String Iface))",
}

func kindOfComp(name string) string {
	if i := strings.Index(name, "$"); i >= 0 {
		return name[:i]
	}
	return name
}

func (u *Universe) comp(name string) string {
	if _, ok := u.compSort[name]; !ok {
		s, ok := baseCompSort[kindOfComp(name)]
		if !ok {
			panic("unknown comp " + name)
		}
		u.compSort[name] = s
		u.comps = append(u.comps, name)
		u.declCompConst(name, 0)
	}
	return name
}

// declCompConst declares the constant of component `name` for epoch e (0 = function entry) with the
// well-formedness of the entry heap: cells of allocated objects reference allocated objects.
func (u *Universe) declCompConst(name string, e int) string {
	cn := name + "_0"
	if e > 0 {
		cn = fmt.Sprintf("%s_e%d", name, e)
	}
	key := "const:" + cn
	if u.declSet[key] {
		return cn
	}
	u.declConst(cn, u.compSort[name])
	u.genConsts[cn] = false
	if rel, ok := u.epochs[e]; ok && rel.merge != nil {
		for _, m := range rel.merge {
			parent := u.declCompConst(name, m.epoch)
			u.decls = append(u.decls, fmt.Sprintf("(assert (=> %s (= %s %s)))", m.cond, cn, parent))
		}
	} else if ok && rel.regions != nil && strings.Contains(name, "$") && !machineryPartition(name) {
		parent := u.declCompConst(name, rel.parent)
		var in []string
		for _, r := range rel.regions {
			in = append(in, eq("(obase a)", "(obase "+r+")"))
		}
		u.decls = append(u.decls, fmt.Sprintf("(assert (forall ((a Int)) (! (=> (not %s) (= (select %s a) (select %s a))) :pattern ((select %s a)))))", or(in...), cn, parent, cn))
	} else if ok && rel.regions != nil {
		// ghost / map components are not affected by a region write
		parent := u.declCompConst(name, rel.parent)
		u.decls = append(u.decls, fmt.Sprintf("(assert (= %s %s))", cn, parent))
	} else if ok && rel.keepFor != nil && strings.Contains(name, "$") {
		if cond := rel.keepFor(name); cond != "false" {
			parent := u.declCompConst(name, rel.parent)
			u.lazyFact(cn, fmt.Sprintf("(forall ((a Int)) (! (=> %s (= (select %s a) (select %s a))) :pattern ((select %s a))))", cond, cn, parent, cn))
		}
	} else if ok && rel.keep != "" && strings.Contains(name, "$") {
		// a partition first used after a havoc of everything: protected cells kept their value.  The relation is a fact
		// about a tracked constant, so that the cone of influence of a goal that mentions it pulls in the holders' definitions
		parent := u.declCompConst(name, rel.parent)
		u.lazyFact(cn, fmt.Sprintf("(forall ((a Int)) (! (=> %s (= (select %s a) (select %s a))) :pattern ((select %s a))))", rel.keep, cn, parent, cn))
	} else if ok && len(rel.keepMapsGround[name]) > 0 {
		parent := u.declCompConst(name, rel.parent)
		var cs []string
		for _, gm := range rel.keepMapsGround[name] {
			cs = append(cs, implies(gm[0], eq("(select "+cn+" "+gm[1]+")", "(select "+parent+" "+gm[1]+")")))
		}
		u.lazyFact(cn, and(cs...))
	}
	if strings.HasPrefix(name, "MV_") && e > 0 {
		if f := u.mapValWF(name, cn); f != "" {
			u.decls = append(u.decls, "(assert "+f+")")
		}
	}
	if strings.HasPrefix(name, "MD_") {
		// the nil map has an empty domain in every state
		ks := u.compSort[name][len("(Array Int ") : len(u.compSort[name])-1]
		u.decls = append(u.decls, fmt.Sprintf("(assert (= (select %s 0) ((as const %s) false)))", cn, ks))
	}
	if al, ok := u.epochAlloc[e]; ok && e > 0 && strings.Contains(name, "$") {
		if f := wfFormula(kindOfComp(name), cn, al); f != "" {
			u.decls = append(u.decls, "(assert "+f+")")
		}
	}
	if e == 0 {
		switch kindOfComp(name) {
		case "MPtr":
			u.decls = append(u.decls, fmt.Sprintf("(assert (forall ((a Int)) (! (=> (< (obase a) ALLOC_0) (and (>= (select %s a) 0) (< (obase (select %s a)) ALLOC_0))) :pattern ((select %s a)))))", cn, cn, cn))
		case "MSlice":
			u.decls = append(u.decls, fmt.Sprintf("(assert (forall ((a Int)) (! (=> (< (obase a) ALLOC_0) (let ((s (select %s a))) (and (>= (sl_arr s) 0) (< (obase (sl_arr s)) ALLOC_0) (>= (sl_off s) 0) (>= (sl_len s) 0) (>= (sl_cap s) (sl_len s)) (=> (= (sl_arr s) 0) (= (sl_cap s) 0))))) :pattern ((select %s a)))))", cn, cn))
		}
	}
	return cn
}

// map components: domain and value arrays per (key sort, value sort)
// lazyFact records a relation of a lazily declared component constant to earlier state
func (u *Universe) lazyFact(cn, f string) {
	if u.onLazyFact != nil {
		u.genConsts[cn] = true
		u.onLazyFact(f)
		return
	}
	u.decls = append(u.decls, "(assert "+f+")")
}

func (u *Universe) mapComps(m *types.Map) (dom, val string, ks, vs string) {
	ks = u.sortOf(m.Key())
	vs = u.sortOf(m.Elem())
	dom = "MD_" + sanitize(ks) + "_" + sanitize(vs)
	val = "MV_" + sanitize(ks) + "_" + sanitize(vs)
	if _, ok := u.compSort[dom]; !ok {
		u.compSort[dom] = fmt.Sprintf("(Array Int (Array %s Bool))", ks)
		u.comps = append(u.comps, dom)
		u.declConst(dom+"_0", u.compSort[dom])
		// the nil map has an empty domain
		u.decls = append(u.decls, fmt.Sprintf("(assert (= (select %s_0 0) ((as const (Array %s Bool)) false)))", dom, ks))
	}
	if _, ok := u.compSort[val]; !ok {
		u.compSort[val] = fmt.Sprintf("(Array Int (Array %s %s))", ks, vs)
		u.comps = append(u.comps, val)
		u.declConst(val+"_0", u.compSort[val])
		if u.mapValType == nil {
			u.mapValType = map[string]types.Type{}
		}
		u.mapValType[val] = m.Elem()
		if f := u.mapValWF(val, val+"_0"); f != "" {
			u.decls = append(u.decls, "(assert "+f+")")
		}
	}
	u.mapLen(m)
	return
}

// wfValue: representation facts of a value of type t that hold in every Go state (slices have 0 <= len <= cap)
func (u *Universe) wfValue(v *Val, t types.Type, depth int) string {
	switch tt := t.Underlying().(type) {
	case *types.Slice:
		return fmt.Sprintf("(and (>= %s 0) (>= %s 0) (>= %s %s) (>= %s 0) (=> (= %s 0) (= %s 0)))", slPart(v, 1), slPart(v, 2), slPart(v, 3), slPart(v, 2), slPart(v, 0), slPart(v, 0), slPart(v, 3))
	case *types.Struct:
		if depth > 2 {
			return "true"
		}
		var cs []string
		sv := &Val{e: v.E(), Sort: v.Sort, T: t}
		for i := 0; i < tt.NumFields(); i++ {
			cs = append(cs, u.wfValue(u.fieldOf(sv, i), tt.Field(i).Type(), depth+1))
		}
		return and(cs...)
	}
	return "true"
}

// mapValWF: the values stored in maps of this value type are well formed (constant cn of component comp)
func (u *Universe) mapValWF(comp, cn string) string {
	t, ok := u.mapValType[comp]
	if !ok {
		return ""
	}
	vs := u.sortOf(t)
	ks := u.compSort[comp][len("(Array Int (Array ") : strings.Index(u.compSort[comp][len("(Array Int (Array "):], " ")+len("(Array Int (Array ")]
	f := u.wfValue(mkVal("(select (select "+cn+" m) k)", vs, t), t, 0)
	if f == "true" {
		return ""
	}
	return fmt.Sprintf("(forall ((m Int) (k %s)) (! %s :pattern ((select (select %s m) k))))", ks, f, cn)
}

// mapLen: the component holding len(m) for maps of this type (one partition per map type, like MD_/MV_)
func (u *Universe) mapLen(m *types.Map) string {
	ml := "ML_" + sanitize(u.sortOf(m.Key())) + "_" + sanitize(u.sortOf(m.Elem()))
	if _, ok := u.compSort[ml]; !ok {
		u.compSort[ml] = "(Array Int Int)"
		u.comps = append(u.comps, ml)
		u.declConst(ml+"_0", "(Array Int Int)")
		u.decls = append(u.decls, fmt.Sprintf("(assert (forall ((a Int)) (! (>= (select %s_0 a) 0) :pattern ((select %s_0 a)))))", ml, ml))
		u.decls = append(u.decls, fmt.Sprintf("(assert (= (select %s_0 0) 0))", ml))
	}
	return ml
}

// State maps heap component -> current SMT term (a constant name).  Components that were not touched
// since the last "havoc everything" event are named by the epoch of that event (0 = function entry).
type State struct {
	M     map[string]string
	Epoch int
	sym   map[string]bool // symbolic state used to compile heap-dependent spec functions: records reads
}

func (s *State) clone() *State {
	n := &State{M: make(map[string]string, len(s.M)), Epoch: s.Epoch, sym: s.sym}
	for k, v := range s.M {
		n.M[k] = v
	}
	return n
}

func (s *State) get(u *Universe, comp string) string {
	if s.sym != nil {
		s.sym[comp] = true
		u.comp2(comp)
		return "h!" + comp
	}
	u.comp2(comp)
	u.accessed[comp] = true
	if v, ok := s.M[comp]; ok {
		return v
	}
	if _, ok := u.compSort[comp]; ok {
		return u.declCompConst(comp, s.Epoch)
	}
	return comp + "_0"
}

func (u *Universe) comp2(name string) {
	if _, ok := u.compSort[name]; ok {
		return
	}
	if strings.Contains(name, "IT_") {
		return
	}
	u.comp(name)
}

func (s *State) keys() []string {
	var ks []string
	for k := range s.M {
		ks = append(ks, k)
	}
	sort.Strings(ks)
	return ks
}

// leaf description of a type's memory layout
type leaf struct {
	path []int // field indices from the root struct
	T    types.Type
	comp string
}

// leaves of a struct type: every leaf lives in the partition (kind $ innermost struct _ field).
// For a non-struct type the single leaf lives in partition kind$tag ("cell" for stand-alone variables,
// "elem" for slice / array elements).
func (u *Universe) leaves(t types.Type) []leaf { return u.leavesTag(t, "cell") }

func (u *Universe) leavesTag(t types.Type, tag string) []leaf {
	var out []leaf
	var rec func(t types.Type, path []int, tag string)
	rec = func(t types.Type, path []int, tag string) {
		if st, _ := structOf(t); st != nil {
			sname := u.sortOf(t)
			for i := 0; i < st.NumFields(); i++ {
				rec(st.Field(i).Type(), append(append([]int{}, path...), i), sname[2:]+"_"+sanitize(st.Field(i).Name()))
			}
			return
		}
		k := compForSort(u, t)
		c := "UNSUPPORTED"
		if k != "" {
			c = k + "$" + tag
			u.comp2(c)
		}
		out = append(out, leaf{path: path, T: t, comp: c})
	}
	rec(t, nil, tag)
	return out
}

// leafAddr computes the address of a leaf given the root address.
func (u *Universe) leafAddr(addr string, t types.Type, path []int) string {
	cur := t
	for _, i := range path {
		st, _ := structOf(cur)
		addr = u.fa(addr, cur, i)
		cur = st.Field(i).Type()
	}
	return addr
}
