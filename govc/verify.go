package main

// Modular calls against contracts, top-level function verification, frames.

import (
	"fmt"
	"go/token"
	"go/types"
	"sort"
	"strings"

	"golang.org/x/tools/go/ssa"
)

// assign item: which addresses of which heap component may be written
type assignItem struct {
	comp   string                // component; "*" = every memory partition
	pred   func(a string) string // condition "address a is covered by this item"
	all    bool                  // whole component
	region string                // for "*" items: the pointer whose object is covered
}

func (tr *Translator) leafItems(addr string, t types.Type, tag string) []assignItem {
	var out []assignItem
	for _, l := range tr.u.leavesTag(t, tag) {
		la := tr.u.leafAddr(addr, t, l.path)
		out = append(out, assignItem{comp: l.comp, pred: func(a string) string { return eq(a, la) }})
	}
	return out
}

// assignItems evaluates the assigns clause of contract c in env.
func (tr *Translator) assignItems(env *Env, c *FuncContract) (items []assignItem, unspecified bool) {
	if c.Assigns == nil {
		if c.Pure {
			return nil, false
		}
		return nil, true
	}
	u := tr.u
	for _, it := range c.Assigns.Items {
		if call, ok := it.(*Call); ok {
			switch call.Fn {
			case "elems":
				s := env.eval(call.Args[0])
				st, ok := s.T.Underlying().(*types.Slice)
				if !ok {
					evalFail("elems() of non-slice")
				}
				arr, off, ln := slPart(s, 0), slPart(s, 1), slPart(s, 2)
				for _, l := range u.leavesTag(st.Elem(), "elem") {
					l := l
					items = append(items, assignItem{comp: l.comp, pred: func(a string) string {
						b := a
						for range l.path {
							b = "(fbase " + b + ")"
						}
						i := "(eidx " + b + ")"
						return and(eq(a, u.leafAddr(ea(arr, i), st.Elem(), l.path)), "(<= "+off+" "+i+")", "(< "+i+" (+ "+off+" "+ln+"))")
					}})
				}
				continue
			case "spare":
				// spare(s): the unused capacity of slice s (cells of its backing array beyond its length)
				s := env.eval(call.Args[0])
				st, ok := s.T.Underlying().(*types.Slice)
				if !ok {
					evalFail("spare() of non-slice")
				}
				arr, off, ln := slPart(s, 0), slPart(s, 1), slPart(s, 2)
				for _, l := range u.leavesTag(st.Elem(), "elem") {
					l := l
					items = append(items, assignItem{comp: l.comp, pred: func(a string) string {
						b := a
						for range l.path {
							b = "(fbase " + b + ")"
						}
						i := "(eidx " + b + ")"
						return and(not(eq(arr, "0")), eq(a, u.leafAddr(ea(arr, i), st.Elem(), l.path)), "(>= "+i+" (+ "+off+" "+ln+"))")
					}})
				}
				continue
			case "map":
				m := env.eval(call.Args[0])
				mt, ok := m.T.Underlying().(*types.Map)
				if !ok {
					evalFail("map() of non-map")
				}
				md, mv, _, _ := u.mapComps(mt)
				for _, cn := range []string{md, mv, u.mapLen(mt)} {
					items = append(items, assignItem{comp: cn, pred: func(a string) string { return eq(a, m.E()) }})
				}
				continue
			case "ghost":
				for _, a := range call.Args {
					id, ok := a.(*Ident)
					if !ok {
						evalFail("ghost() wants component names")
					}
					switch id.Name {
					case "calls":
						items = append(items, assignItem{comp: "GCnt", all: true}, assignItem{comp: "GLast", all: true})
					default:
						if g, ok := tr.ghosts[id.Name]; ok {
							items = append(items, assignItem{comp: g, all: true})
						} else {
							items = append(items, assignItem{comp: id.Name, all: true})
						}
					}
				}
				continue
			case "region":
				// region(p): every cell of the allocated object that contains p, in every partition ("*")
				p := env.eval(call.Args[0])
				tr.trusted["region(p): decode targets are model values; the structs of the loader machinery (schemaLoader, ExpandOptions, resolverContext, simpleCache) are never part of them, so their partitions are outside every region"] = true
				items = append(items, assignItem{comp: "*", region: p.E(), pred: func(a string) string { return eq("(obase "+a+")", "(obase "+p.E()+")") }})
				continue
			case "modelmaps":
				// every map of the document model (all maps whose values are not bool): their contents may change
				for _, cn := range append([]string{}, u.comps...) {
					if (strings.HasPrefix(cn, "MD_") || strings.HasPrefix(cn, "MV_")) && !strings.HasSuffix(cn, "_Bool") {
						items = append(items, assignItem{comp: cn, all: true})
					}
				}
				for _, cn := range append([]string{}, u.comps...) {
					if strings.HasPrefix(cn, "ML_") && !strings.HasSuffix(cn, "_Bool") {
						items = append(items, assignItem{comp: cn, all: true})
					}
				}
				continue
			case "everything":
				return nil, true
			}
		}
		addr, t, tag := env.addrOf(it)
		items = append(items, tr.leafItems(addr, t, tag)...)
	}
	return items, false
}

func (tr *Translator) contractMods(c *FuncContract, callee *ssa.Function) ([]string, bool) {
	if c.Assigns == nil {
		if c.Pure {
			return nil, false
		}
		return nil, true
	}
	// evaluate with dummy parameter values
	vars := map[string]*Val{}
	if callee != nil {
		for _, p := range callee.Params {
			vars[p.Name()] = mkVal("dummy_"+sanitize(p.Name()), tr.u.sortOf(p.Type()), p.Type())
		}
	} else {
		for _, p := range tr.contracts.ExtSigs[c.Key] {
			if p.Type != "" {
				s, t := tr.sortOfText(p.Type)
				vars[p.Name] = mkVal("dummy_"+sanitize(p.Name), s, t)
			}
		}
	}
	env := &Env{tr: tr, vars: vars, st: tr.cur, old: tr.cur}
	var items []assignItem
	var unspec bool
	func() {
		defer func() {
			if r := recover(); r != nil {
				if _, ok := r.(evalError); ok {
					unspec = true
					return
				}
				panic(r)
			}
		}()
		items, unspec = tr.assignItems(env, c)
	}()
	if unspec {
		return nil, true
	}
	set := map[string]bool{"ALLOC": true}
	for _, it := range items {
		if it.comp == "*" {
			for _, cn := range tr.u.comps {
				if strings.Contains(cn, "$") {
					set[cn] = true
				}
			}
			continue
		}
		set[it.comp] = true
	}
	var out []string
	for k := range set {
		out = append(out, k)
	}
	sort.Strings(out)
	return out, false
}

func resultNames(sig *types.Signature) []string {
	var names []string
	res := sig.Results()
	for i := 0; i < res.Len(); i++ {
		n := res.At(i).Name()
		if n == "" || n == "_" {
			n = fmt.Sprintf("result%d", i)
		}
		names = append(names, n)
	}
	return names
}

func bindResults(env *Env, sig *types.Signature, vals []*Val) {
	names := resultNames(sig)
	for i, v := range vals {
		if i < len(names) {
			env.vars[names[i]] = v
		}
		env.vars[fmt.Sprintf("result%d", i)] = v
	}
	if len(vals) >= 1 {
		if _, clash := env.vars["result"]; !clash {
			// a parameter named `result` keeps its name; the first return value is then result0 only
			env.vars["result"] = vals[0]
		}
	}
}

func (fc *fctx) callContractFn(c *FuncContract, callee *ssa.Function, args []*Val, pos token.Pos) []*Val {
	vars := map[string]*Val{}
	for i, p := range callee.Params {
		if i < len(args) {
			vars[p.Name()] = args[i]
		}
	}
	return fc.callWith(c, fnKey(callee), vars, callee.Signature, pos, callee)
}

func (fc *fctx) callContract(c *FuncContract, key string, params []Param, args []*Val, results *types.Tuple, pos token.Pos) []*Val {
	vars := map[string]*Val{}
	for i, p := range params {
		if i < len(args) {
			vars[p.Name] = args[i]
		}
	}
	sig := types.NewSignatureType(nil, nil, nil, nil, results, false)
	return fc.callWith(c, key, vars, sig, pos, nil)
}

func (fc *fctx) callWith(c *FuncContract, key string, vars map[string]*Val, sig *types.Signature, pos token.Pos, callee *ssa.Function) []*Val {
	tr := fc.tr
	u := tr.u
	if callee != nil && !c.Trusted {
		tr.useContract(key)
	}
	tr.callArgs = nil
	for _, v := range vars {
		tr.callArgs = append(tr.callArgs, tr.pointersIn(v, 0)...)
	}
	pre := tr.cur.clone()
	env := &Env{tr: tr, vars: vars, st: pre, old: pre}
	if c.Trusted {
		why := c.Why
		if why == "" {
			why = "dependency"
		}
		tr.trusted["assumed contract: "+key+" ("+why+")"] = true
	}
	for i, cl := range c.Clauses {
		if cl.Kind != "requires" {
			continue
		}
		g := fc.evalClause(env, cl, key)
		name := cl.Name
		if name == "" {
			name = fmt.Sprint(i)
		}
		tr.oblige("pre", "pre/"+fnKey(fc.fn)+"/"+key+"/"+name, g, pos, clauseProps(cl, tr.topProps), cl.Src)
		tr.assume(g)
	}
	// call-site clauses of the function under verification
	if fc.top && fc.contract != nil && callee != nil {
		ord := -1
		for _, cl := range fc.contract.Clauses {
			if cl.Kind != "callsite" || cl.Callee != key {
				continue
			}
			if ord < 0 {
				ord = callOrdinal(fc.fn, callee, pos)
			}
			if cl.Loop != ord {
				continue
			}
			cenv := fc.envAt(tr.cur)
			for n, v := range vars {
				cenv.vars["arg_"+n] = v
			}
			g := fc.evalClause(cenv, cl, tr.topKey)
			name := cl.Name
			if name == "" {
				name = "clause"
			}
			tr.oblige("pre", fmt.Sprintf("callsite/%s/%s#%d/%s", fnKey(fc.fn), key, ord, name), g, pos, clauseProps(cl, tr.topProps), cl.Src)
			tr.assume(g)
		}
	}
	// termination of recursion
	if fc.top && fc.contract != nil && callee != nil {
		var mine, theirs []*Clause
		for _, cl := range fc.contract.Clauses {
			if cl.Kind == "decreases" && cl.Loop == -1 {
				mine = append(mine, cl)
			}
		}
		for _, cl := range c.Clauses {
			if cl.Kind == "decreases" && cl.Loop == -1 {
				theirs = append(theirs, cl)
			}
		}
		if len(mine) > 0 && len(theirs) > 0 && len(mine) == len(theirs) {
			me := fc.envAt(fc.entrySt)
			var lt []string
			eqs := "true"
			for i := range mine {
				a := env.eval(theirs[i].E).E()
				b := me.eval(mine[i].E).E()
				lt = append(lt, and(eqs, "(< "+a+" "+b+")", "(>= "+a+" 0)"))
				eqs = and(eqs, eq(a, b))
			}
			tr.oblige("dec", "dec/"+fnKey(fc.fn)+"/call/"+key, or(lt...), pos, clauseProps(theirs[0], tr.topProps), theirs[0].Src)
		}
	}
	// havoc
	items, unspec := tr.assignItems(env, c)
	if unspec {
		tr.havocAll()
	} else if !c.Pure || len(items) > 0 {
		byComp := map[string][]assignItem{}
		var order []string
		var stars []assignItem
		for _, it := range items {
			if it.comp == "*" {
				stars = append(stars, it)
				continue
			}
			if _, ok := byComp[it.comp]; !ok {
				order = append(order, it.comp)
			}
			byComp[it.comp] = append(byComp[it.comp], it)
		}
		if len(stars) > 0 {
			// every partition touched so far may change inside the designated objects; partitions first used
			// later are related to their old value through the epoch relation
			for _, cn := range tr.cur.keys() {
				if strings.Contains(cn, "$") && !machineryPartition(cn) {
					if _, ok := byComp[cn]; !ok {
						order = append(order, cn)
						byComp[cn] = nil
					}
				}
			}
			for cn := range byComp {
				if strings.Contains(cn, "$") && !machineryPartition(cn) {
					byComp[cn] = append(byComp[cn], stars...)
				}
			}
			var regs []string
			for _, st := range stars {
				regs = append(regs, st.region)
			}
			tr.bumpEpochRegion(regs)
		}
		allocPre := tr.cur.get(u, "ALLOC")
		if !c.Pure {
			n := tr.havocComp("ALLOC")
			tr.fact("(>= " + n + " " + allocPre + ")")
			if tr.pendingEpochAlloc > 0 {
				tr.u.epochAlloc[tr.pendingEpochAlloc] = n
				tr.pendingEpochAlloc = 0
			}
		}
		for _, cn := range order {
			old := tr.cur.get(u, cn)
			n := tr.havocComp(cn)
			whole := false
			var preds []string
			for _, it := range byComp[cn] {
				if it.all {
					whole = true
				} else {
					preds = append(preds, it.pred("a"))
				}
			}
			if whole {
				continue
			}
			tr.factFor(n, fmt.Sprintf("(forall ((a Int)) (! (=> (and (< (obase a) %s) %s) (= (select %s a) (select %s a))) :pattern ((select %s a))))", allocPre, not(or(preds...)), n, old, n))
			tr.assumeWF(cn, n, tr.cur.get(u, "ALLOC"))
		}
	}
	res := fc.freshResults(sig.Results(), "c_"+sanitize(key))
	env2 := &Env{tr: tr, vars: map[string]*Val{}, st: tr.cur, old: pre}
	for k, v := range vars {
		env2.vars[k] = v
	}
	bindResults(env2, sig, res)
	for _, cl := range c.Clauses {
		if cl.Kind != "ensures" && cl.Kind != "defines" {
			continue
		}
		tr.assume(fc.evalClause(env2, cl, key))
	}
	return res
}

// pointersIn: the pointers a value hands to a callee: the value itself, or - for a struct passed by value - the pointers,
// slice backing arrays, maps and interface payloads in its fields
func (tr *Translator) pointersIn(v *Val, depth int) []string {
	switch v.Sort {
	case "Int":
		if v.T != nil {
			switch v.T.Underlying().(type) {
			case *types.Pointer, *types.Map, *types.Signature, *types.Chan:
				return []string{v.E()}
			case *types.Basic:
				if b := v.T.Underlying().(*types.Basic); b.Kind() == types.UnsafePointer || b.Kind() == types.Uintptr {
					return []string{v.E()}
				}
				return nil
			}
		}
		return []string{v.E()}
	case "Iface":
		return []string{ifPart(v, 1)}
	case "Slice":
		return []string{slPart(v, 0)}
	}
	// a struct passed by value: when it is a protected local itself, the local is recorded in callLocalArgs by the call
	// site (its holders are then handed over); otherwise it is a copy of a sub-value, from which - model values being
	// trees - no holder of the caller's locals can be reached
	return nil
}

func clauseProps(cl *Clause, def []string) []string {
	if len(cl.Props) > 0 {
		return cl.Props
	}
	return def
}

func (fc *fctx) evalClause(env *Env, cl *Clause, where string) (out string) {
	defer func() {
		if r := recover(); r != nil {
			if ee, ok := r.(evalError); ok {
				panic(unsupported{fmt.Sprintf("contract of %s: clause %q: %s", where, cl.Src, ee.msg)})
			}
			panic(r)
		}
	}()
	v := env.eval(cl.E)
	if v.Sort != "Bool" {
		evalFail("clause is not boolean")
	}
	return v.E()
}

// ---------------------------------------------------------------------------
// top level

func (tr *Translator) useContract(key string) {
	if tr.usedContracts == nil {
		tr.usedContracts = map[string]bool{}
	}
	tr.usedContracts[key] = true
}

type FuncResult struct {
	Used     []string // in-package contracts relied upon
	Key      string
	Obls     []*Obligation
	Unsup    string
	Warnings []string
	Trusted  []string
	tr       *Translator
}

// verifyFunc generates all obligations for fn against contract c (c may be nil: safety only).
func verifyFunc(prog *ssa.Program, spkg *ssa.Package, contracts *Contracts, fn *ssa.Function, c *FuncContract, opts verifyOpts) (res *FuncResult) {
	tr := newTranslator(prog, spkg, contracts)
	tr.topKey = fnKey(fn)
	tr.autoRecvNonNil = opts.autoRecvNonNil
	if c != nil {
		tr.topProps = c.Props
		tr.appendView = c.AppendView
		for _, k := range c.Inline {
			tr.inlineAnyway[k] = true
		}
		tr.uninterpStrings = c.Strings == "uninterpreted"
	}
	if len(opts.props) > 0 && len(tr.topProps) == 0 {
		tr.topProps = opts.props
	}
	res = &FuncResult{Key: tr.topKey, tr: tr}
	defer func() {
		tr.factInfos()
		tr.factIndex(len(tr.facts))
		res.Obls = tr.obls
		res.Warnings = tr.warnings
		for k := range tr.trusted {
			res.Trusted = append(res.Trusted, k)
		}
		sort.Strings(res.Trusted)
		for k := range tr.usedContracts {
			res.Used = append(res.Used, k)
		}
		sort.Strings(res.Used)
		if r := recover(); r != nil {
			switch e := r.(type) {
			case unsupported:
				res.Unsup = e.msg
			case evalError:
				res.Unsup = "contract evaluation: " + e.msg
			default:
				panic(r)
			}
		}
	}()
	u := tr.u
	fc := tr.newFctx(fn)
	fc.top = true
	fc.contract = c
	// global axioms
	genv := &Env{tr: tr, vars: map[string]*Val{}, st: tr.cur, old: tr.cur}
	tr.axiomFrom = len(tr.facts)
	for _, ax := range contracts.Axioms {
		tr.fact(genv.eval(ax.E).E())
	}
	tr.axiomTo = len(tr.facts)
	// laws of spec functions that name the result of a verified pure function (defines result == f(params))
	// parameters
	for i, p := range fn.Params {
		v := fc.freshVal("p_"+sanitize(p.Name()), p.Type())
		fc.vals[p] = []*Val{v}
		fc.params[p.Name()] = v
		tr.assumeWellFormed(v, p.Type(), 0)
		if pt, ok := p.Type().Underlying().(*types.Pointer); ok {
			if st, _ := structOf(pt.Elem()); st != nil {
				tr.paramHolders = append(tr.paramHolders, paramHolder{v.E(), pt.Elem()})
			}
		}
		if _, ok := p.Type().Underlying().(*types.Interface); ok {
			// an interface parameter holding a pointer: the object it designates
			tr.paramHolders = append(tr.paramHolders, paramHolder{ifPart(v, 1), nil})
		}
		if i == 0 && fn.Signature.Recv() != nil && tr.autoRecvNonNil {
			if _, ok := p.Type().Underlying().(*types.Pointer); ok {
				tr.fact(not(eq(v.E(), "0")))
				tr.trusted["pointer receivers are non-nil (a nil receiver is the caller's fault)"] = true
			}
		}
	}
	for _, fv := range fn.FreeVars {
		v := fc.freshVal("fv_"+sanitize(fv.Name()), fv.Type())
		fc.freeVars = append(fc.freeVars, v)
		fc.params[fv.Name()] = v
		tr.assumeWellFormed(v, fv.Type(), 0)
	}
	// heap well-formedness: cells of allocated objects point to allocated objects
	fc.entrySt = tr.cur.clone()
	if c != nil {
		env := fc.envAt(tr.cur)
		for _, cl := range c.Clauses {
			if cl.Kind == "uses" {
				tr.fact(tr.instantiateLaw(env, cl))
				continue
			}
			if cl.Kind == "requires" || cl.Kind == "assumes" {
				tr.fact(fc.evalClause(env, cl, tr.topKey))
				if cl.Kind == "assumes" {
					tr.trusted["assumed in "+tr.topKey+": "+cl.Src] = true
				}
			}
		}
	}
	fc.run("true")
	// returns
	var reaches []string
	for k, r := range fc.rets {
		tr.reach = r.reach
		tr.cur = r.st
		reaches = append(reaches, r.reach)
		if c == nil {
			continue
		}
		env := fc.envAt(r.st)
		bindResults(env, fn.Signature, r.vals)
		suffix := ""
		if len(fc.rets) > 1 {
			suffix = fmt.Sprintf("@ret%d", k)
		}
		for _, cl := range c.Clauses {
			if cl.Kind != "retsite" || cl.Loop != returnOrdinal(fn, r.pos) {
				continue
			}
			name := cl.Name
			if name == "" {
				name = "clause"
			}
			g := fc.evalClause(env, cl, tr.topKey)
			tr.oblige("post", fmt.Sprintf("retsite/%s/ret%d/%s", tr.topKey, cl.Loop, name), g, r.pos, clauseProps(cl, tr.topProps), cl.Src)
		}
		for i, cl := range c.Clauses {
			if cl.Kind != "ensures" && cl.Kind != "law" {
				continue
			}
			name := cl.Name
			if name == "" {
				name = fmt.Sprint(i)
			}
			g := fc.evalClause(env, cl, tr.topKey)
			if parts := splitGoal(g, 8); len(parts) > 1 && exclusionOf(c, cl) == nil {
				for pi, pg := range parts {
					tr.oblige("post", fmt.Sprintf("post/%s/%s.%d%s", tr.topKey, name, pi, suffix), pg, r.pos, clauseProps(cl, tr.topProps), cl.Src)
				}
			} else {
				tr.oblige("post", "post/"+tr.topKey+"/"+name+suffix, g, r.pos, clauseProps(cl, tr.topProps), cl.Src)
			}
			// `excluding name @@ H`: outside the witness class H of a recorded finding the clause must still hold
			for _, ex := range c.Clauses {
				if ex.Kind == "excluding" && ex.Name == cl.Name && cl.Name != "" {
					h := fc.evalClause(env, ex, tr.topKey)
					tr.oblige("post", "post/"+tr.topKey+"/"+name+"~excl"+suffix, implies(h, g), r.pos, clauseProps(cl, tr.topProps), cl.Src+"   [under the exclusion: "+ex.Src+"]")
				}
			}
			// `chained`: a later postcondition may rely on the earlier ones (each is still an obligation of its own)
			if c.Chained && cl.Kind == "ensures" {
				if ex := exclusionOf(c, cl); ex != nil {
					tr.assume(implies(fc.evalClause(env, ex, tr.topKey), g))
				} else {
					tr.assume(g)
				}
			}
		}
		// frame
		entryEnv := fc.envAt(fc.entrySt)
		items, unspec := tr.assignItems(entryEnv, c)
		if !unspec {
			byComp := map[string][]assignItem{}
			for _, it := range items {
				byComp[it.comp] = append(byComp[it.comp], it)
			}
			for _, cn := range append([]string{}, u.comps...) {
				if cn == "ALLOC" || strings.Contains(cn, "IT_") {
					continue
				}
				now := r.st.get(u, cn)
				if now == cn+"_0" {
					continue
				}
				whole := false
				var preds []string
				sk := u.fresh("sk_a")
				its := byComp[cn]
				if strings.Contains(cn, "$") && !machineryPartition(cn) {
					its = append(append([]assignItem{}, its...), byComp["*"]...)
				}
				for _, it := range its {
					if it.all {
						whole = true
					} else {
						preds = append(preds, it.pred(sk))
					}
				}
				if whole {
					continue
				}
				var goal string
				var extra []string
				if cn == "GCnt" || cn == "GLast" || strings.HasPrefix(cn, "GV_") {
					goal = eq(now, cn+"_0")
				} else {
					extra = []string{fmt.Sprintf("(declare-const %s Int)", sk)}
					goal = implies(and("(< (obase "+sk+") ALLOC_0)", not(or(preds...))), eq("(select "+now+" "+sk+")", "(select "+cn+"_0 "+sk+")"))
				}
				o := tr.oblige("frame", "frame/"+tr.topKey+"/"+cn+suffix, goal, r.pos, clauseProps(c.Assigns, tr.topProps), "assigns "+c.Assigns.Src)
				o.Extra = extra
			}
		}
	}
	// vacuity / reachability: some return must be reachable under the preconditions
	tr.reach = "true"
	if len(reaches) > 0 {
		o := tr.oblige("vacuity", "vacuity/"+tr.topKey, or(reaches...), token.NoPos, nil, "some return is reachable under the preconditions")
		o.Goal = or(reaches...)
		o.Expect = "sat"
	} else if c != nil {
		res.Unsup = "function has no reachable return"
	}
	return res
}

type verifyOpts struct {
	autoRecvNonNil bool
	props          []string
}

// assumeWellFormed states representation facts about an incoming value.
func (tr *Translator) assumeWellFormed(v *Val, t types.Type, depth int) {
	switch tt := t.Underlying().(type) {
	case *types.Pointer, *types.Map, *types.Signature, *types.Chan:
		tr.fact(fmt.Sprintf("(and (>= %s 0) (< (obase %s) ALLOC_0))", v.E(), v.E()))
		if _, ok := tt.(*types.Map); ok {
			tr.fact(fmt.Sprintf("(= (obase %s) %s)", v.E(), v.E()))
		}
	case *types.Slice:
		tr.fact(fmt.Sprintf("(and (>= (sl_arr %s) 0) (< (obase (sl_arr %s)) ALLOC_0) (>= (sl_off %s) 0) (>= (sl_len %s) 0) (>= (sl_cap %s) (sl_len %s)) (=> (= (sl_arr %s) 0) (= (sl_cap %s) 0)))",
			v.E(), v.E(), v.E(), v.E(), v.E(), v.E(), v.E(), v.E()))
	case *types.Basic:
		if tt.Info()&types.IsUnsigned != 0 {
			tr.fact("(>= " + v.E() + " 0)")
		}
	case *types.Struct:
		if depth > 3 {
			return
		}
		for i := 0; i < tt.NumFields(); i++ {
			tr.assumeWellFormed(tr.u.fieldOf(v, i), tt.Field(i).Type(), depth+1)
		}
	}
}

// globalIdent resolves identifiers that are not parameters: package-level variables.
func (tr *Translator) globalIdent(name string) *Val {
	if m, ok := tr.spkg.Members[name]; ok {
		if g, ok := m.(*ssa.Global); ok {
			fc := &fctx{tr: tr, vals: map[ssa.Value][]*Val{}}
			addr := fc.valN(g)[0]
			et := g.Type().Underlying().(*types.Pointer).Elem()
			return tr.load(tr.cur, addr.E(), et)
		}
	}
	return nil
}

var allFuncs map[string]*ssa.Function

// exportDefining: a contract with `defines result == f(p1..pn)` on a function that assigns nothing makes
// every proved `ensures` of that function a law of f: forall p1..pn :: requires ==> ensures[result := f(p1..pn)].
// (The ensures clauses are obligations of that function's own verification; here they are used as facts.)
func (tr *Translator) exportDefining(genv *Env) {
	for _, key := range tr.contracts.Order {
		c := tr.contracts.Funcs[key]
		if key == tr.topKey || c.Assigns == nil || len(c.Assigns.Items) != 0 {
			continue
		}
		var def *Call
		for _, cl := range c.Clauses {
			if cl.Kind == "defines" {
				if b, ok := cl.E.(*Binary); ok && b.Op == "==" {
					if id, ok := b.X.(*Ident); ok && id.Name == "result" {
						if call, ok := b.Y.(*Call); ok {
							def = call
						}
					}
				}
			}
		}
		fn := allFuncs[key]
		if def == nil || fn == nil {
			continue
		}
		var vars []Param
		okSig := true
		for _, p := range fn.Params {
			switch tr.u.sortOf(p.Type()) {
			case "String":
				vars = append(vars, Param{p.Name(), "string"})
			case "Int":
				vars = append(vars, Param{p.Name(), "int"})
			case "Bool":
				vars = append(vars, Param{p.Name(), "bool"})
			default:
				okSig = false
			}
		}
		if !okSig {
			continue
		}
		var pre Expr = &BoolLit{true}
		var post Expr = &BoolLit{true}
		for _, cl := range c.Clauses {
			switch cl.Kind {
			case "requires":
				pre = &Binary{"&&", pre, cl.E}
			case "ensures":
				post = &Binary{"&&", post, substResult(cl.E, def)}
			}
		}
		q := &Quant{Forall: true, Vars: vars, Body: &Binary{"==>", pre, post}}
		func() {
			defer func() {
				if r := recover(); r != nil {
					if _, ok := r.(evalError); !ok {
						panic(r)
					}
				}
			}()
			tr.fact(genv.eval(q).E())
			tr.trusted["law of "+def.Fn+" exported from the verified contract of "+key] = true
		}()
	}
}

func substResult(e Expr, repl Expr) Expr {
	switch x := e.(type) {
	case *Ident:
		if x.Name == "result" {
			return repl
		}
		return x
	case *Unary:
		return &Unary{x.Op, substResult(x.X, repl)}
	case *Binary:
		return &Binary{x.Op, substResult(x.X, repl), substResult(x.Y, repl)}
	case *Cond:
		return &Cond{substResult(x.C, repl), substResult(x.A, repl), substResult(x.B, repl)}
	case *Call:
		var args []Expr
		for _, a := range x.Args {
			args = append(args, substResult(a, repl))
		}
		return &Call{x.Fn, args}
	case *Sel:
		return &Sel{substResult(x.X, repl), x.F}
	case *Index:
		return &Index{substResult(x.X, repl), substResult(x.I, repl)}
	case *Quant:
		return &Quant{Forall: x.Forall, Vars: x.Vars, Body: substResult(x.Body, repl)}
	}
	return e
}

// exportLaws: a `law` clause of a (lemma) function is an obligation of that function and, everywhere else,
// the fact  forall params :: requires ==> law.  It must mention only parameters of basic sorts and spec functions.
func (tr *Translator) exportLaws(genv *Env) {
	for _, key := range tr.contracts.Order {
		c := tr.contracts.Funcs[key]
		if key == tr.topKey {
			continue
		}
		fn := allFuncs[key]
		if fn == nil {
			continue
		}
		for _, cl := range c.Clauses {
			if cl.Kind != "law" {
				continue
			}
			var vars []Param
			okSig := true
			for _, p := range fn.Params {
				switch tr.u.sortOf(p.Type()) {
				case "String":
					vars = append(vars, Param{p.Name(), "string"})
				case "Int":
					vars = append(vars, Param{p.Name(), "int"})
				case "Bool":
					vars = append(vars, Param{p.Name(), "bool"})
				default:
					okSig = false
				}
			}
			if !okSig {
				continue
			}
			var pre Expr = &BoolLit{true}
			for _, rc := range c.Clauses {
				if rc.Kind == "requires" {
					pre = &Binary{"&&", pre, rc.E}
				}
			}
			q := &Quant{Forall: true, Vars: vars, Body: &Binary{"==>", pre, cl.E}}
			tr.fact(genv.eval(q).E())
			tr.trusted["law "+cl.Name+" proved in "+key] = true
		}
	}
}

// instantiateLaw: `uses lemma.law(args)` yields  requires_of_lemma[params:=args] ==> law[params:=args].
func (tr *Translator) instantiateLaw(env *Env, cl *Clause) string {
	i := strings.LastIndex(cl.Name, ".")
	if i < 0 {
		evalFail("uses: want lemmaFunc.lawName")
	}
	key, lawName := cl.Name[:i], cl.Name[i+1:]
	tr.useContract(key)
	c := tr.contracts.Funcs[key]
	fn := allFuncs[key]
	if c == nil || fn == nil {
		evalFail("uses: unknown lemma function %s", key)
	}
	if len(cl.Items) != len(fn.Params) {
		evalFail("uses %s: wrong number of arguments", cl.Name)
	}
	n := &Env{tr: tr, vars: map[string]*Val{}, st: env.st, old: env.old}
	for i, p := range fn.Params {
		n.vars[p.Name()] = env.eval(cl.Items[i])
	}
	var pre []string
	var law string
	// a function whose result is named by a spec function (defines result == f(params)): its proved
	// ensures clauses are laws of f
	var def Expr
	for _, lc := range c.Clauses {
		if lc.Kind == "defines" {
			if b, ok := lc.E.(*Binary); ok && b.Op == "==" {
				if id, ok := b.X.(*Ident); ok && id.Name == "result" {
					def = b.Y
				}
			}
		}
	}
	for _, lc := range c.Clauses {
		switch {
		case lc.Kind == "requires":
			pre = append(pre, n.eval(lc.E).E())
		case lc.Kind == "law" && lc.Name == lawName:
			law = n.eval(lc.E).E()
		case lc.Kind == "ensures" && lc.Name == lawName && def != nil && c.Assigns != nil && len(c.Assigns.Items) == 0:
			law = n.eval(substResult(lc.E, def)).E()
		}
	}
	if law == "" {
		evalFail("uses: lemma %s has no law %s", key, lawName)
	}
	tr.trusted["law "+cl.Name+" (proved in the lemma function, instantiated here)"] = true
	return implies(and(pre...), law)
}

// machineryPartition: partitions of the structs of the loader machinery, which no decode target contains
func machineryPartition(cn string) bool {
	i := strings.Index(cn, "$")
	if i < 0 {
		return false
	}
	tag := cn[i+1:]
	for _, s := range []string{"schemaLoader_", "ExpandOptions_", "resolverContext_", "simpleCache_"} {
		if strings.HasPrefix(tag, s) {
			return true
		}
	}
	return false
}

func exclusionOf(c *FuncContract, cl *Clause) *Clause {
	for _, ex := range c.Clauses {
		if ex.Kind == "excluding" && ex.Name == cl.Name && cl.Name != "" {
			return ex
		}
	}
	return nil
}

// callOrdinal: the index of the call at pos among the static call sites of callee in fn, in source order.
func callOrdinal(fn, callee *ssa.Function, pos token.Pos) int {
	var ps []token.Pos
	for _, b := range fn.Blocks {
		for _, in := range b.Instrs {
			ci, ok := in.(ssa.CallInstruction)
			if !ok || ci.Common().StaticCallee() != callee {
				continue
			}
			ps = append(ps, ci.Pos())
		}
	}
	sort.Slice(ps, func(i, j int) bool { return ps[i] < ps[j] })
	for i, p := range ps {
		if p == pos {
			return i
		}
	}
	return -1
}

// returnOrdinal: the index of the return statement at pos among the return statements of fn, in source order.
func returnOrdinal(fn *ssa.Function, pos token.Pos) int {
	var ps []token.Pos
	seen := map[token.Pos]bool{}
	for _, b := range fn.Blocks {
		for _, in := range b.Instrs {
			if r, ok := in.(*ssa.Return); ok && r.Pos() != token.NoPos && !seen[r.Pos()] {
				seen[r.Pos()] = true
				ps = append(ps, r.Pos())
			}
		}
	}
	sort.Slice(ps, func(i, j int) bool { return ps[i] < ps[j] })
	for i, p := range ps {
		if p == pos {
			return i
		}
	}
	return -1
}
