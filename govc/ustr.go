package main

// Optional abstraction of strings: for functions that only copy and compare strings, the whole query is
// rewritten to use an uninterpreted sort Str.  Literals become distinct constants, string operations
// become uninterpreted functions (so no string-theory reasoning is available - nor needed - there).

import (
	"fmt"
	"sort"
	"strings"
)

var ustrOps = map[string]string{
	"str.++": "ustr_concat", "str.len": "ustr_len", "str.prefixof": "ustr_prefixof", "str.suffixof": "ustr_suffixof",
	"str.contains": "ustr_contains", "str.substr": "ustr_substr", "str.at": "ustr_at", "str.to_code": "ustr_to_code",
	"str.<": "ustr_lt", "str.<=": "ustr_le", "str.indexof": "ustr_indexof",
}

const ustrPrelude = `(declare-sort Str 0)
(declare-fun strlit_id (Str) Int)
(declare-fun ustr_concat (Str Str) Str)
(declare-fun ustr_len (Str) Int)
(declare-fun ustr_prefixof (Str Str) Bool)
(declare-fun ustr_suffixof (Str Str) Bool)
(declare-fun ustr_contains (Str Str) Bool)
(declare-fun ustr_substr (Str Int Int) Str)
(declare-fun ustr_at (Str Int) Str)
(declare-fun ustr_to_code (Str) Int)
(declare-fun ustr_lt (Str Str) Bool)
(declare-fun ustr_le (Str Str) Bool)
(declare-fun ustr_indexof (Str Str Int) Int)
(assert (forall ((s Str)) (! (>= (ustr_len s) 0) :pattern ((ustr_len s)))))
`

// abstractStrings rewrites an SMT-LIB text.
func abstractStrings(q string) string {
	var sb strings.Builder
	lits := map[string]int{}
	i := 0
	n := len(q)
	for i < n {
		c := q[i]
		if c == '"' {
			j := i + 1
			for j < n {
				if q[j] == '"' {
					if j+1 < n && q[j+1] == '"' {
						j += 2
						continue
					}
					break
				}
				j++
			}
			lit := q[i : j+1]
			id, ok := lits[lit]
			if !ok {
				id = len(lits)
				lits[lit] = id
			}
			sb.WriteString(fmt.Sprintf("strlit_%d", id))
			i = j + 1
			continue
		}
		// tokens
		if c == '(' || c == ')' || c == ' ' || c == '\n' || c == '\t' {
			sb.WriteByte(c)
			i++
			continue
		}
		j := i
		for j < n && q[j] != '(' && q[j] != ')' && q[j] != ' ' && q[j] != '\n' && q[j] != '\t' && q[j] != '"' {
			j++
		}
		tok := q[i:j]
		if tok == "String" {
			sb.WriteString("Str")
		} else if r, ok := ustrOps[tok]; ok {
			sb.WriteString(r)
		} else {
			sb.WriteString(tok)
		}
		i = j
	}
	var decl strings.Builder
	decl.WriteString(ustrPrelude)
	type kv struct {
		lit string
		id  int
	}
	var ls []kv
	for l, id := range lits {
		ls = append(ls, kv{l, id})
	}
	sort.Slice(ls, func(a, b int) bool { return ls[a].id < ls[b].id })
	for _, l := range ls {
		decl.WriteString(fmt.Sprintf("(declare-const strlit_%d Str) (assert (= (strlit_id strlit_%d) %d)) ; %s\n", l.id, l.id, l.id, strings.ReplaceAll(l.lit, "\n", " ")))
		if l.lit == `""` {
			decl.WriteString(fmt.Sprintf("(assert (= (ustr_len strlit_%d) 0))\n", l.id))
		}
	}
	body := sb.String()
	// insert the prelude after the leading set-option / set-logic lines
	idx := 0
	for {
		rest := body[idx:]
		if strings.HasPrefix(rest, "(set-option") || strings.HasPrefix(rest, "(set-logic") {
			k := strings.Index(rest, "\n")
			if k < 0 {
				break
			}
			idx += k + 1
			continue
		}
		break
	}
	return body[:idx] + decl.String() + body[idx:]
}
