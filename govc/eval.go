package main

// Evaluation of contract expressions to SMT terms.

import (
	"os"
	"fmt"
	"sort"
	"go/token"
	"go/types"
	"strings"
)

type Env struct {
	tr    *Translator
	vars  map[string]*Val
	st    *State // current heap
	old   *State // heap at function entry (for old())
	bound map[string]*Val
	depth int
}

func (e *Env) with(name string, v *Val) *Env {
	n := *e
	n.vars = make(map[string]*Val, len(e.vars)+1)
	for k, x := range e.vars {
		n.vars[k] = x
	}
	n.vars[name] = v
	return &n
}

func (e *Env) inState(st *State) *Env {
	n := *e
	n.st = st
	return &n
}

var nilVal = &Val{e: "0", Sort: "Nil"}

type evalError struct{ msg string }

func evalFail(format string, args ...interface{}) {
	panic(evalError{fmt.Sprintf(format, args...)})
}

// resolveType turns a type text from the contract language into a Go type.
func (tr *Translator) resolveType(txt string) types.Type {
	switch txt {
	case "int":
		return types.Typ[types.Int]
	case "int64":
		return types.Typ[types.Int64]
	case "string":
		return types.Typ[types.String]
	case "bool":
		return types.Typ[types.Bool]
	case "float64":
		return types.Typ[types.Float64]
	case "any", "interface{}":
		return types.NewInterfaceType(nil, nil)
	case "fn", "ptr", "ref":
		return types.Typ[types.Uintptr]
	}
	if t, ok := tr.typeCache[txt]; ok {
		return t
	}
	tv, err := types.Eval(token.NewFileSet(), tr.tpkg, token.NoPos, txt)
	if err != nil {
		// qualified names of imported packages: *pkg.Type, []pkg.Type, pkg.Type
		if t := tr.resolveQualified(txt); t != nil {
			tr.typeCache[txt] = t
			return t
		}
		evalFail("cannot resolve type %q: %v", txt, err)
	}
	tr.typeCache[txt] = tv.Type
	return tv.Type
}

func (tr *Translator) sortOfText(txt string) (string, types.Type) {
	if txt == "jsonvalue" {
		tr.jsonDecls()
		return "JV", nil
	}
	if strings.HasPrefix(txt, "smt:") { // raw SMT sort
		if strings.Contains(txt, "JV") {
			tr.jsonDecls()
		}
		// struct sorts S_<Name> mentioned in a raw sort are declared first
		for _, w := range strings.FieldsFunc(txt[4:], func(r rune) bool { return r == ' ' || r == '(' || r == ')' }) {
			if strings.HasPrefix(w, "S_") {
				func() {
					defer func() { recover() }()
					tr.u.sortOf(tr.resolveType(w[2:]))
				}()
			}
		}
		return txt[4:], nil
	}
	t := tr.resolveType(txt)
	return tr.u.sortOf(t), t
}

func (e *Env) eval(x Expr) *Val {
	u := e.tr.u
	switch x := x.(type) {
	case *IntLit:
		if strings.Contains(x.V, ".") {
			return mkVal(x.V, "Real", types.Typ[types.Float64])
		}
		return intVal(x.V)
	case *StrLit:
		return mkVal(smtString(x.V), "String", types.Typ[types.String])
	case *BoolLit:
		if x.V {
			return boolVal("true")
		}
		return boolVal("false")
	case *NilLit:
		return nilVal
	case *Ident:
		if v, ok := e.vars[x.Name]; ok {
			return v
		}
		if g, ok := e.tr.ghosts[x.Name]; ok {
			return mkVal(e.st.get(e.tr.u, g), e.tr.u.compSort[g], nil)
		}
		if v := e.tr.globalIdent(x.Name); v != nil {
			return v
		}
		if os.Getenv("GOVC_DEBUG") != "" {
			for k := range e.vars {
				fmt.Fprintln(os.Stderr, "  var in scope:", k)
			}
		}
		evalFail("unknown identifier %q", x.Name)
	case *Unary:
		switch x.Op {
		case "!":
			return boolVal(not(e.eval(x.X).E()))
		case "-":
			v := e.eval(x.X)
			return mkVal("(- "+v.E()+")", v.Sort, v.T)
		case "*":
			p := e.eval(x.X)
			pt, ok := p.T.Underlying().(*types.Pointer)
			if !ok {
				evalFail("deref of non-pointer %v", p.T)
			}
			tag := p.Tag
			if tag == "" {
				tag = "cell"
			}
			return e.tr.loadTag(e.st, p.E(), pt.Elem(), tag)
		case "&":
			addr, t, tag := e.addrOf(x.X)
			return &Val{e: addr, Sort: "Int", T: types.NewPointer(t), Tag: tag}
		}
	case *Binary:
		return e.evalBinary(x)
	case *Cond:
		c := e.eval(x.C)
		a := e.eval(x.A)
		b := e.eval(x.B)
		a, b = e.unify(a, b)
		return mkVal(ite(c.E(), a.E(), b.E()), a.Sort, a.T)
	case *Sel:
		return e.evalSel(x)
	case *Index:
		base := e.eval(x.X)
		idx := e.eval(x.I)
		if base.T == nil {
			// raw SMT array (a struct-sorted element keeps its Go type so that fields can be selected)
			es := arrayElemSort(base.Sort)
			return mkVal("(select "+base.E()+" "+idx.E()+")", es, u.sortTypes[es])
		}
		switch bt := base.T.Underlying().(type) {
		case *types.Slice:
			addr := u.sla(base, idx.E())
			return e.tr.loadTag(e.st, addr, bt.Elem(), "elem")
		case *types.Map:
			_, mv, _, vs := u.mapComps(bt)
			return mkVal("(select (select "+e.st.get(u, mv)+" "+base.E()+") "+idx.E()+")", vs, bt.Elem())
		case *types.Basic:
			if bt.Info()&types.IsString != 0 {
				return intVal("(str.to_code (str.at " + base.E() + " " + idx.E() + "))")
			}
		case *types.Pointer:
			if at, ok := bt.Elem().Underlying().(*types.Array); ok {
				return e.tr.loadTag(e.st, ea(base.E(), idx.E()), at.Elem(), "elem")
			}
		}
		evalFail("index on %v", base.T)
	case *SliceE:
		base := e.eval(x.X)
		if base.Sort == "String" {
			lo := "0"
			if x.Lo != nil {
				lo = e.eval(x.Lo).E()
			}
			hi := "(str.len " + base.E() + ")"
			if x.Hi != nil {
				hi = e.eval(x.Hi).E()
			}
			return mkVal(fmt.Sprintf("(str.substr %s %s (- %s %s))", base.E(), lo, hi, lo), "String", base.T)
		}
		if base.Sort == "Slice" {
			lo := "0"
			if x.Lo != nil {
				lo = e.eval(x.Lo).E()
			}
			hi := slPart(base, 2)
			if x.Hi != nil {
				hi = e.eval(x.Hi).E()
			}
			return mkSlice(base.T, slPart(base, 0), add(slPart(base, 1), lo), "(- "+hi+" "+lo+")", "(- "+slPart(base, 3)+" "+lo+")")
		}
		evalFail("slice expr on %s", base.Sort)
	case *Quant:
		n := *e
		n.vars = make(map[string]*Val, len(e.vars)+len(x.Vars))
		for k, v := range e.vars {
			n.vars[k] = v
		}
		var bs []string
		for _, p := range x.Vars {
			s, t := e.tr.sortOfText(p.Type)
			name := p.Name + "!" + fmt.Sprint(e.depth)
			name = "q_" + sanitize(name)
			n.vars[p.Name] = mkVal(name, s, t)
			bs = append(bs, "("+name+" "+s+")")
		}
		n.depth++
		// explicit triggers:  forall x :: triggers(t1, t2) && body
		var explicit []string
		bodyExpr := x.Body
		if b, ok := bodyExpr.(*Binary); ok && b.Op == "&&" {
			if c, ok := b.X.(*Call); ok && c.Fn == "triggers" {
				for _, a := range c.Args {
					explicit = append(explicit, "("+n.eval(a).E()+")")
				}
				bodyExpr = b.Y
			}
		}
		body := n.eval(bodyExpr)
		q := "forall"
		if !x.Forall {
			q = "exists"
		}
		var names []string
		for _, p := range x.Vars {
			names = append(names, n.vars[p.Name].E())
		}
		bodyE := body.E()
		pats := explicit
		if len(pats) == 0 {
			pats = inferPatterns(bodyE, names)
		}
		if len(pats) > 0 {
			bodyE = "(! " + bodyE
			for _, p := range pats {
				bodyE += " :pattern " + p
			}
			bodyE += ")"
		}
		return boolVal("(" + q + " (" + strings.Join(bs, " ") + ") " + bodyE + ")")
	case *Call:
		return e.evalCall(x)
	}
	evalFail("cannot evaluate %T", x)
	return nil
}

func arrayElemSort(s string) string {
	// "(Array K V)" -> V
	if !strings.HasPrefix(s, "(Array ") {
		evalFail("not an array sort: %s", s)
	}
	inner := s[7 : len(s)-1]
	// split first s-expr
	d := 0
	for i := 0; i < len(inner); i++ {
		switch inner[i] {
		case '(':
			d++
		case ')':
			d--
		case ' ':
			if d == 0 {
				return inner[i+1:]
			}
		}
	}
	evalFail("bad array sort %s", s)
	return ""
}

// unify adapts nil literals to the sort of the other operand.
func (e *Env) unify(a, b *Val) (*Val, *Val) {
	if a.Sort == "Nil" && b.Sort != "Nil" {
		return e.nilOf(b), b
	}
	if b.Sort == "Nil" && a.Sort != "Nil" {
		return a, e.nilOf(a)
	}
	if a.Sort == "Nil" && b.Sort == "Nil" {
		return intVal("0"), intVal("0")
	}
	if a.Sort == "Int" && b.Sort == "Real" {
		return mkVal("(to_real "+a.E()+")", "Real", b.T), b
	}
	if a.Sort == "Real" && b.Sort == "Int" {
		return a, mkVal("(to_real "+b.E()+")", "Real", a.T)
	}
	return a, b
}

func (e *Env) nilOf(like *Val) *Val {
	switch like.Sort {
	case "Int":
		return mkVal("0", "Int", like.T)
	case "Slice":
		return mkSlice(like.T, "0", "0", "0", "0")
	case "Iface":
		return mkIface(like.T, "0", "0")
	}
	evalFail("nil compared with %s", like.Sort)
	return nil
}

func (e *Env) evalBinary(x *Binary) *Val {
	switch x.Op {
	case "&&":
		return boolVal(and(e.eval(x.X).E(), e.eval(x.Y).E()))
	case "||":
		return boolVal(or(e.eval(x.X).E(), e.eval(x.Y).E()))
	case "==>":
		return boolVal(implies(e.eval(x.X).E(), e.eval(x.Y).E()))
	case "<==>":
		return boolVal("(= " + e.eval(x.X).E() + " " + e.eval(x.Y).E() + ")")
	}
	a := e.eval(x.X)
	b := e.eval(x.Y)
	switch x.Op {
	case "==", "!=":
		var r string
		// comparisons against nil on slices / ifaces look only at the discriminating part
		if b.Sort == "Nil" && a.Sort == "Slice" {
			r = eq(slPart(a, 0), "0")
		} else if b.Sort == "Nil" && a.Sort == "Iface" {
			r = eq(ifPart(a, 0), "0")
		} else if a.Sort == "Nil" && b.Sort == "Slice" {
			r = eq(slPart(b, 0), "0")
		} else if a.Sort == "Nil" && b.Sort == "Iface" {
			r = eq(ifPart(b, 0), "0")
		} else {
			a, b = e.unify(a, b)
			if a.Sort != b.Sort {
				evalFail("== on different sorts %s vs %s (%s)", a.Sort, b.Sort, a.E())
			}
			r = eq(a.E(), b.E())
		}
		if x.Op == "!=" {
			r = not(r)
		}
		return boolVal(r)
	case "<", "<=", ">", ">=":
		a, b = e.unify(a, b)
		if a.Sort == "String" {
			switch x.Op {
			case "<":
				return boolVal("(str.< " + a.E() + " " + b.E() + ")")
			case "<=":
				return boolVal("(str.<= " + a.E() + " " + b.E() + ")")
			case ">":
				return boolVal("(str.< " + b.E() + " " + a.E() + ")")
			default:
				return boolVal("(str.<= " + b.E() + " " + a.E() + ")")
			}
		}
		return boolVal("(" + x.Op + " " + a.E() + " " + b.E() + ")")
	case "+":
		a, b = e.unify(a, b)
		if a.Sort == "String" {
			return mkVal("(str.++ "+a.E()+" "+b.E()+")", "String", a.T)
		}
		return mkVal(add(a.E(), b.E()), a.Sort, a.T)
	case "-", "*":
		a, b = e.unify(a, b)
		return mkVal("("+x.Op+" "+a.E()+" "+b.E()+")", a.Sort, a.T)
	case "/":
		a, b = e.unify(a, b)
		if a.Sort == "Int" {
			return mkVal("(div "+a.E()+" "+b.E()+")", a.Sort, a.T)
		}
		return mkVal("(/ "+a.E()+" "+b.E()+")", a.Sort, a.T)
	case "%":
		return mkVal("(mod "+a.E()+" "+b.E()+")", a.Sort, a.T)
	}
	evalFail("binary op %s", x.Op)
	return nil
}

// fieldPath finds the (possibly promoted) field name in struct type t.
func fieldPath(t types.Type, name string) ([]int, types.Type) {
	obj, idx, _ := types.LookupFieldOrMethod(t, true, nil, name)
	if obj == nil {
		// unexported field lookup needs the package
		if n, ok := derefNamed(t); ok && n.Obj().Pkg() != nil {
			obj, idx, _ = types.LookupFieldOrMethod(t, true, n.Obj().Pkg(), name)
		}
	}
	v, ok := obj.(*types.Var)
	if !ok || !v.IsField() {
		return nil, nil
	}
	return idx, v.Type()
}

func derefNamed(t types.Type) (*types.Named, bool) {
	if p, ok := t.Underlying().(*types.Pointer); ok {
		t = p.Elem()
	}
	n, ok := t.(*types.Named)
	return n, ok
}

func (e *Env) evalSel(x *Sel) *Val {
	u := e.tr.u
	base := e.eval(x.X)
	if base.T == nil {
		evalFail("selector .%s on untyped value", x.F)
	}
	if pt, ok := base.T.Underlying().(*types.Pointer); ok {
		path, ft := e.lookupField(pt.Elem(), x.F)
		addr, _, tag := e.walkAddr(base.E(), pt.Elem(), path)
		return e.tr.loadTag(e.st, addr, ft, tag)
	}
	if st, _ := structOf(base.T); st != nil {
		path, _ := e.lookupField(base.T, x.F)
		cur := base
		for _, i := range path {
			// embedded pointers inside a value struct: follow through the heap
			if pt, ok := cur.T.Underlying().(*types.Pointer); ok {
				cur = e.tr.load(e.st, cur.E(), pt.Elem())
			}
			cur = u.fieldOf(cur, i)
		}
		return cur
	}
	evalFail("selector .%s on %v", x.F, base.T)
	return nil
}

func (e *Env) lookupField(t types.Type, name string) ([]int, types.Type) {
	obj, idx, _ := types.LookupFieldOrMethod(t, true, e.tr.tpkg, name)
	v, ok := obj.(*types.Var)
	if !ok || !v.IsField() {
		// unexported field of a foreign struct: search by name, breadth first through embedded structs
		if path, ft := findFieldByName(t, name, 0); path != nil {
			return path, ft
		}
		evalFail("no field %s in %v", name, t)
	}
	return idx, v.Type()
}

func findFieldByName(t types.Type, name string, depth int) ([]int, types.Type) {
	if p, ok := t.Underlying().(*types.Pointer); ok {
		t = p.Elem()
	}
	st, ok := t.Underlying().(*types.Struct)
	if !ok || depth > 4 {
		return nil, nil
	}
	for i := 0; i < st.NumFields(); i++ {
		if st.Field(i).Name() == name {
			return []int{i}, st.Field(i).Type()
		}
	}
	for i := 0; i < st.NumFields(); i++ {
		if st.Field(i).Embedded() {
			if path, ft := findFieldByName(st.Field(i).Type(), name, depth+1); path != nil {
				return append([]int{i}, path...), ft
			}
		}
	}
	return nil, nil
}

// walkAddr follows a field index path starting from a struct at addr; also returns the partition tag of the final field.
func (e *Env) walkAddr(addr string, t types.Type, path []int) (string, types.Type, string) {
	u := e.tr.u
	cur := t
	tag := "cell"
	for _, i := range path {
		if pt, ok := cur.Underlying().(*types.Pointer); ok {
			// embedded pointer: load it
			addr = e.tr.loadTag(e.st, addr, cur, tag).E()
			cur = pt.Elem()
		}
		st, _ := structOf(cur)
		sname := u.sortOf(cur)
		tag = sname[2:] + "_" + sanitize(st.Field(i).Name())
		addr = u.fa(addr, cur, i)
		cur = st.Field(i).Type()
	}
	return addr, cur, tag
}

// addrOf computes the address denoted by an lvalue expression, its type and (for leaf cells) its partition tag.
func (e *Env) addrOf(x Expr) (string, types.Type, string) {
	switch x := x.(type) {
	case *Unary:
		if x.Op == "*" {
			p := e.eval(x.X)
			pt, ok := p.T.Underlying().(*types.Pointer)
			if !ok {
				evalFail("addr of deref of non-pointer")
			}
			tag := p.Tag
			if tag == "" {
				tag = "cell"
			}
			return p.E(), pt.Elem(), tag
		}
	case *Sel:
		// pointer base?
		if id, ok := x.X.(*Ident); ok {
			if v, ok := e.vars[id.Name]; ok && v.T != nil {
				if pt, ok := v.T.Underlying().(*types.Pointer); ok {
					path, _ := e.lookupField(pt.Elem(), x.F)
					return e.walkAddr(v.E(), pt.Elem(), path)
				}
			}
		}
		// nested lvalue
		if _, isIdent := x.X.(*Ident); !isIdent {
			// if the inner expression is a pointer value, use it
			if v := e.tryEval(x.X); v != nil && v.T != nil {
				if pt, ok := v.T.Underlying().(*types.Pointer); ok {
					path, _ := e.lookupField(pt.Elem(), x.F)
					return e.walkAddr(v.E(), pt.Elem(), path)
				}
			}
		}
		baddr, bt, _ := e.addrOf(x.X)
		path, _ := e.lookupField(bt, x.F)
		return e.walkAddr(baddr, bt, path)
	case *Index:
		base := e.eval(x.X)
		idx := e.eval(x.I)
		switch bt := base.T.Underlying().(type) {
		case *types.Slice:
			return e.tr.u.sla(base, idx.E()), bt.Elem(), "elem"
		case *types.Pointer:
			if at, ok := bt.Elem().Underlying().(*types.Array); ok {
				return ea(base.E(), idx.E()), at.Elem(), "elem"
			}
		}
	case *Ident:
		if v, ok := e.vars["&"+x.Name]; ok {
			return v.E(), v.T, "cell"
		}
	}
	evalFail("not an addressable expression: %#v", x)
	return "", nil, ""
}

func (e *Env) tryEval(x Expr) (v *Val) {
	defer func() {
		if r := recover(); r != nil {
			if _, ok := r.(evalError); ok {
				v = nil
				return
			}
			panic(r)
		}
	}()
	return e.eval(x)
}

func (e *Env) evalCall(x *Call) *Val {
	u := e.tr.u
	tr := e.tr
	arg := func(i int) *Val {
		if i >= len(x.Args) {
			evalFail("%s: missing argument %d", x.Fn, i)
		}
		return e.eval(x.Args[i])
	}
	switch x.Fn {
	case "old":
		if e.old == nil {
			evalFail("old() not available here")
		}
		return e.inState(e.old).eval(x.Args[0])
	case "len":
		v := arg(0)
		switch v.Sort {
		case "Slice":
			return intVal(slPart(v, 2))
		case "String":
			return intVal("(str.len " + v.E() + ")")
		case "Int":
			if mt, ok := v.T.Underlying().(*types.Map); ok {
				return intVal("(select " + e.st.get(u, u.mapLen(mt)) + " " + v.E() + ")")
			}
		}
		evalFail("len of %s", v.Sort)
	case "cap":
		return intVal(slPart(arg(0), 3))
	case "has":
		m := arg(0)
		mt, ok := m.T.Underlying().(*types.Map)
		if !ok {
			evalFail("has() on non-map")
		}
		md, _, _, _ := u.mapComps(mt)
		return boolVal("(select (select " + e.st.get(u, md) + " " + m.E() + ") " + arg(1).E() + ")")
	case "dom":
		m := arg(0)
		mt, ok := m.T.Underlying().(*types.Map)
		if !ok {
			evalFail("dom() on non-map")
		}
		md, _, ks, _ := u.mapComps(mt)
		return mkVal("(select "+e.st.get(u, md)+" "+m.E()+")", "(Array "+ks+" Bool)", nil)
	case "calls":
		return intVal("(select (select " + e.st.get(u, "GCnt") + " " + arg(0).E() + ") " + arg(1).E() + ")")
	case "lastArg":
		return mkVal("(select (select "+e.st.get(u, "GLast")+" "+arg(0).E()+") "+arg(1).E()+")", "Iface", types.NewInterfaceType(nil, nil))
	case "iface":
		v := arg(0)
		if v.Sort == "Iface" {
			return v
		}
		if v.T == nil {
			evalFail("iface() of untyped value")
		}
		return mkIface(types.NewInterfaceType(nil, nil), fmt.Sprint(u.typeID(v.T)), u.box(v))
	case "addr":
		a, t, tag := e.addrOf(x.Args[0])
		return &Val{e: a, Sort: "Int", T: types.NewPointer(t), Tag: tag}
	case "allocated":
		// allocated(p): p points into an object that existed at function entry
		al := "ALLOC_0"
		if e.old != nil {
			al = e.old.get(u, "ALLOC")
		}
		return boolVal("(< (obase " + arg(0).E() + ") " + al + ")")
	case "live":
		// live(p): p points into an object that exists in the current state (allocated before now)
		return boolVal("(< (obase " + arg(0).E() + ") " + e.st.get(u, "ALLOC") + ")")
	case "fresh":
		return boolVal("(>= (obase " + arg(0).E() + ") " + e.old.get(u, "ALLOC") + ")")
	case "freshObj":
		// a newly allocated object: its own base, allocated between the pre-state and now
		p := arg(0).E()
		return boolVal(fmt.Sprintf("(and (> %s 0) (= (obase %s) %s) (= (ftag %s) 0) (>= %s %s) (< %s %s))", p, p, p, p, p, e.old.get(u, "ALLOC"), p, e.st.get(u, "ALLOC")))
	case "nfKind", "nfKindAll":
		// nfKind(j, "PropsStruct", "metaSchemaDefinition"): every member of object j that is a JSON field of the struct
		// is in normal form: not null, decodes, re-encodes to itself and - unless the shipped meta-schema lists it as
		// required - is not empty.  nfKindAll demands non-emptiness of required members too.
		j := arg(0)
		sl1, ok1 := x.Args[1].(*StrLit)
		sl2, ok2 := x.Args[2].(*StrLit)
		if !ok1 || !ok2 {
			evalFail("nfKind wants literals")
		}
		t := tr.resolveType(sl1.V)
		st, _ := structOf(t)
		if st == nil {
			evalFail("nfKind: %s is not a struct", sl1.V)
		}
		req := tr.metaRequired(sl2.V)
		var cs []string
		for _, f := range jsonFields(st) {
			dec, dok := tr.decFn(f.typ)
			enc := tr.encFn(f.typ)
			k := smtString(f.name)
			v := "(oVal " + j.E() + " " + k + ")"
			dv := mkVal("("+dec+" "+v+")", tr.u.sortOf(f.typ), f.typ)
			conds := []string{not(eq(v, "jNull")), "(" + dok + " " + v + ")", eq("("+enc+" "+dv.E()+")", v)}
			if !req[f.name] || x.Fn == "nfKindAll" {
				if _, isMap := f.typ.Underlying().(*types.Map); isMap {
					// the emptiness of a decoded map is a property of the JSON object it was decoded from
					tr.u.decl("specfn:jEmptyObj", "(declare-fun jEmptyObj (JV) Bool)")
					conds = append(conds, not("(jEmptyObj "+v+")"))
				} else {
					conds = append(conds, not(tr.emptyOfState(e.st, dv, f.typ)))
				}
			}
			cs = append(cs, implies("(> (oCnt "+j.E()+" "+k+") 0)", and(conds...)))
		}
		return boolVal(and(cs...))
	case "decodedFields", "fieldsCnt", "fieldsVal", "fieldsDecOK":
		// the tag-directed view of a struct value v (by its static type):
		//   decodedFields(j, v): every JSON field of v holds what encoding/json decodes from object j into a zero struct
		//   fieldsDecOK(j, "T"):  every present non-null member of j that is a JSON field of T decodes
		//   fieldsCnt(v, k) / fieldsVal(v, k): number of members named k, and their value, in the encoding of v
		var st *types.Struct
		var v *Val
		var j *Val
		switch x.Fn {
		case "decodedFields":
			j, v = arg(0), arg(1)
			st, _ = structOf(v.T)
		case "fieldsDecOK":
			j = arg(0)
			sl, ok := x.Args[1].(*StrLit)
			if !ok {
				evalFail("fieldsDecOK wants a type literal")
			}
			st, _ = structOf(tr.resolveType(sl.V))
		default:
			v = arg(0)
			st, _ = structOf(v.T)
		}
		if st == nil {
			evalFail("%s: not a struct", x.Fn)
		}
		var cs, cnt []string
		valExpr := "jNull"
		var kE string
		if x.Fn == "fieldsCnt" || x.Fn == "fieldsVal" {
			kE = arg(1).E()
		}
		for _, f := range jsonFields(st) {
			var fv *Val
			if v != nil {
				fv = v
				for _, i := range f.path {
					if i == derefStep {
						evalFail("%s: embedded pointer", x.Fn)
					}
					fv = tr.u.fieldOf(fv, i)
				}
			}
			name := smtString(f.name)
			switch x.Fn {
			case "decodedFields", "fieldsDecOK":
				dec, dok := tr.decFn(f.typ)
				present := and("(> (oCnt "+j.E()+" "+name+") 0)", not(eq("(oVal "+j.E()+" "+name+")", "jNull")))
				if x.Fn == "fieldsDecOK" {
					cs = append(cs, implies(present, "("+dok+" (oVal "+j.E()+" "+name+"))"))
				} else {
					cs = append(cs, eq(fv.E(), ite(present, "("+dec+" (oVal "+j.E()+" "+name+"))", tr.u.zero(f.typ).E())))
					if mt, isMap := f.typ.Underlying().(*types.Map); isMap {
						// a decoded map is empty exactly when the JSON object it came from is
						tr.u.decl("specfn:jEmptyObj", "(declare-fun jEmptyObj (JV) Bool)")
						cs = append(cs, implies(present, and(not(eq(fv.E(), "0")),
							eq(eq("(select "+e.st.get(tr.u, tr.u.mapLen(mt))+" "+fv.E()+")", "0"), "(jEmptyObj (oVal "+j.E()+" "+name+"))"))))
					}
				}
			default:
				incl := "true"
				if f.omitempty {
					incl = not(tr.emptyOfState(e.st, fv, f.typ))
				}
				isK := eq(kE, name)
				cnt = append(cnt, ite(and(isK, incl), "1", "0"))
				valExpr = ite(isK, "("+tr.encFn(f.typ)+" "+fv.E()+")", valExpr)
			}
		}
		switch x.Fn {
		case "fieldsCnt":
			return intVal("(+ 0 " + strings.Join(cnt, " ") + ")")
		case "fieldsVal":
			return mkVal(valExpr, "JV", nil)
		}
		return boolVal(and(cs...))
	case "eachKey":
		// eachKey("T", k, body): the conjunction of body for k = every JSON field name of struct T (ground instances
		// instead of a quantifier over a 40-way disjunction)
		sl, ok := x.Args[0].(*StrLit)
		id, ok2 := x.Args[1].(*Ident)
		if !ok || !ok2 {
			evalFail("eachKey wants a type literal and a variable")
		}
		st, _ := structOf(tr.resolveType(sl.V))
		if st == nil {
			evalFail("eachKey: %s is not a struct", sl.V)
		}
		saved, had := e.vars[id.Name]
		var cs []string
		for _, f := range jsonFields(st) {
			e.vars[id.Name] = mkVal(smtString(f.name), "String", types.Typ[types.String])
			cs = append(cs, e.eval(x.Args[2]).E())
		}
		if had {
			e.vars[id.Name] = saved
		} else {
			delete(e.vars, id.Name)
		}
		return boolVal(and(cs...))
	case "hasAllKeys":
		// hasAllKeys(c, "T"): every JSON field name of struct T occurs in the string slice c (one existential per name)
		sl, ok := x.Args[1].(*StrLit)
		if !ok {
			evalFail("hasAllKeys wants a type literal")
		}
		st, _ := structOf(tr.resolveType(sl.V))
		if st == nil {
			evalFail("hasAllKeys: %s is not a struct", sl.V)
		}
		saved, had := e.vars["$c"]
		e.vars["$c"] = arg(0)
		var cs []string
		for _, f := range jsonFields(st) {
			ex, err := parseExpr(fmt.Sprintf("exists i int :: 0 <= i && i < len($c) && $c[i] == %q", f.name))
			if err != nil {
				evalFail("hasAllKeys: %v", err)
			}
			cs = append(cs, e.eval(ex).E())
		}
		if had {
			e.vars["$c"] = saved
		} else {
			delete(e.vars, "$c")
		}
		return boolVal(and(cs...))
	case "str":
		// str(x): a value of a named string type as a plain string
		v := arg(0)
		if v.Sort != "String" {
			evalFail("str() of a non-string")
		}
		return mkVal(v.E(), "String", types.Typ[types.String])
	case "requiredPresent":
		// requiredPresent(j, "metaSchemaDefinition"): the members the meta-schema requires are present
		j := arg(0)
		sl, ok := x.Args[1].(*StrLit)
		if !ok {
			evalFail("requiredPresent wants a literal")
		}
		var cs []string
		for name := range tr.metaRequired(sl.V) {
			cs = append(cs, "(> (oCnt "+j.E()+" "+smtString(name)+") 0)")
		}
		sort.Strings(cs)
		return boolVal(and(cs...))
	case "knownKey":
		sl, ok := x.Args[0].(*StrLit)
		if !ok {
			evalFail("knownKey wants a type literal")
		}
		t := tr.resolveType(sl.V)
		st, _ := structOf(t)
		if st == nil {
			evalFail("knownKey: %s is not a struct", sl.V)
		}
		k := arg(1)
		var ds []string
		for _, f := range jsonFields(st) {
			ds = append(ds, eq(k.E(), smtString(f.name)))
		}
		return boolVal(or(ds...))
	case "encOf":
		// encOf(x): the JSON value encoding/json produces for x (by the static type of x)
		v := arg(0)
		if v.T == nil {
			evalFail("encOf of untyped value")
		}
		return mkVal("("+tr.encFn(v.T)+" "+v.E()+")", "JV", nil)
	case "encTextOf":
		// encTextOf(x): the text json.Marshal produces for x (by the static type of x)
		v := arg(0)
		if v.T == nil {
			evalFail("encTextOf of untyped value")
		}
		return mkVal("("+tr.encTextFn(v.T)+" "+v.E()+")", "String", types.Typ[types.String])
	case "encOKOf":
		// encOKOf(x): json.Marshal(x) succeeds (by the static type of x)
		v := arg(0)
		if v.T == nil {
			evalFail("encOKOf of untyped value")
		}
		tr.encFn(v.T)
		okName := "encOK_" + typeKey(v.T)
		tr.u.decl(okName, fmt.Sprintf("(declare-fun %s (%s) Bool)", okName, tr.u.sortOf(v.T)))
		return boolVal("(" + okName + " " + v.E() + ")")
	case "decOf", "decOKOf":
		sl, ok := x.Args[0].(*StrLit)
		if !ok {
			evalFail("%s wants a type literal first", x.Fn)
		}
		t := tr.resolveType(sl.V)
		dec, dok := tr.decFn(t)
		if x.Fn == "decOf" {
			return mkVal("("+dec+" "+arg(1).E()+")", tr.u.sortOf(t), t)
		}
		return boolVal("(" + dok + " " + arg(1).E() + ")")
	case "upd":
		// upd(arr, k, v): SMT array store on ghost maps
		a := arg(0)
		return mkVal("(store "+a.E()+" "+arg(1).E()+" "+e.coerceNilLike(arg(2), arrayElemSort(a.Sort)).E()+")", a.Sort, nil)
	case "asPtr":
		// asPtr(ifaceValue, "*T"): the pointer held by an interface value whose dynamic type is *T
		sl, ok := x.Args[1].(*StrLit)
		if !ok {
			evalFail("asPtr wants a type literal")
		}
		t := tr.resolveType(sl.V)
		return mkVal(ifPart(arg(0), 1), "Int", t)
	case "asValue":
		// asValue(ifaceValue, "T"): the value held by an interface value whose dynamic type is the non-pointer type T
		sl, ok := x.Args[1].(*StrLit)
		if !ok {
			evalFail("asValue wants a type literal")
		}
		t := tr.resolveType(sl.V)
		s := u.sortOf(t)
		return mkVal(u.unbox(ifPart(arg(0), 1), s), s, t)
	case "ftag", "fbase", "eidx":
		return mkVal("("+x.Fn+" "+arg(0).E()+")", "Int", types.Typ[types.UnsafePointer])
	case "elemAddr":
		return mkVal(ea(arg(0).E(), arg(1).E()), "Int", types.Typ[types.UnsafePointer])
	case "memStr":
		return mkVal("(select "+e.st.get(u, "MStr$elem")+" "+arg(0).E()+")", "String", types.Typ[types.String])
	case "obase":
		return mkVal("(obase "+arg(0).E()+")", "Int", types.Typ[types.UnsafePointer])
	case "asString":
		// the string held by an interface value whose dynamic type is string
		tr.u.ensureBox("String")
		return mkVal("(unbox_String "+ifPart(arg(0), 1)+")", "String", types.Typ[types.String])
	case "payload":
		// payload(ifaceValue): the pointer held by an interface value (dynamic type is some pointer type)
		return mkVal(ifPart(arg(0), 1), "Int", types.Typ[types.UnsafePointer])
	case "holds":
		// holds(ifaceValue, "T"): the dynamic type of the interface value is T
		sl, ok := x.Args[1].(*StrLit)
		if !ok {
			evalFail("holds wants a type literal")
		}
		return boolVal(eq(ifPart(arg(0), 0), fmt.Sprint(u.typeID(tr.resolveType(sl.V)))))
	case "lower":
		e.tr.declLower()
		return mkVal("(str_lower "+arg(0).E()+")", "String", types.Typ[types.String])
	case "hasPrefix":
		return boolVal("(str.prefixof " + arg(1).E() + " " + arg(0).E() + ")")
	case "hasSuffix":
		return boolVal("(str.suffixof " + arg(1).E() + " " + arg(0).E() + ")")
	case "contains":
		return boolVal("(str.contains " + arg(0).E() + " " + arg(1).E() + ")")
	case "indexOf":
		return intVal("(str.indexof " + arg(0).E() + " " + arg(1).E() + " 0)")
	case "substr":
		return mkVal("(str.substr "+arg(0).E()+" "+arg(1).E()+" "+arg(2).E()+")", "String", types.Typ[types.String])
	case "ite":
		c, a, b := arg(0), arg(1), arg(2)
		a, b = e.unify(a, b)
		return mkVal(ite(c.E(), a.E(), b.E()), a.Sort, a.T)
	case "b2i":
		return intVal(ite(arg(0).E(), "1", "0"))
	case "sliceArr":
		return intVal(slPart(arg(0), 0))
	case "sliceOff":
		return intVal(slPart(arg(0), 1))
	case "dynType":
		return intVal(ifPart(arg(0), 0))
	case "typeID":
		// typeID("*float64")
		s, ok := x.Args[0].(*StrLit)
		if !ok {
			evalFail("typeID wants a string literal")
		}
		return intVal(fmt.Sprint(u.typeID(tr.resolveType(s.V))))
	case "unchanged":
		// unchanged(lvalue): value at old state equals value now
		a := e.eval(x.Args[0])
		b := e.inState(e.old).eval(x.Args[0])
		return boolVal(eq(a.E(), b.E()))
	}
	if d, ok := tr.contracts.Defines[x.Fn]; ok {
		if d.Rec {
			return tr.callRecDefine(e, d, x)
		}
		if len(d.Params) != len(x.Args) {
			evalFail("%s: wrong number of arguments", x.Fn)
		}
		n := *e
		n.vars = make(map[string]*Val, len(d.Params))
		for i, p := range d.Params {
			n.vars[p.Name] = e.coerce(arg(i), p.Type)
		}
		// defines see global idents but not caller locals
		return n.eval(d.Body)
	}
	if sf, ok := tr.contracts.SpecFns[x.Fn]; ok {
		return tr.callSpecFn(e, sf, x)
	}
	evalFail("unknown function %s in contract expression", x.Fn)
	return nil
}

func (e *Env) coerceNilLike(v *Val, sort string) *Val {
	if v.Sort != "Nil" {
		return v
	}
	return e.nilOf(&Val{Sort: sort})
}

func (e *Env) coerce(v *Val, typeText string) *Val {
	if v.Sort != "Nil" {
		return v
	}
	s, t := e.tr.sortOfText(typeText)
	like := &Val{Sort: s, T: t}
	return e.nilOf(like)
}

func (tr *Translator) callSpecFn(e *Env, sf *SpecFn, x *Call) *Val {
	u := tr.u
	var asorts []string
	for _, p := range sf.Params {
		s, _ := tr.sortOfText(p)
		asorts = append(asorts, s)
	}
	rs, rt := tr.sortOfText(sf.Ret)
	u.decl("specfn:"+sf.Name, fmt.Sprintf("(declare-fun %s (%s) %s)", sf.Name, strings.Join(asorts, " "), rs))
	if len(x.Args) != len(sf.Params) {
		evalFail("%s: wrong number of arguments", sf.Name)
	}
	if len(x.Args) == 0 {
		return mkVal(sf.Name, rs, rt)
	}
	var as []string
	for i, a := range x.Args {
		as = append(as, e.coerce(e.eval(a), sf.Params[i]).E())
	}
	return mkVal("("+sf.Name+" "+strings.Join(as, " ")+")", rs, rt)
}

// callRecDefine compiles a recursive, heap-dependent spec function to an SMT
// define-fun-rec whose extra leading parameters are the heap components it reads.
func (tr *Translator) callRecDefine(e *Env, d *Define, x *Call) *Val {
	u := tr.u
	info, ok := tr.recDefs[d.Name]
	if !ok {
		info = &recInfo{}
		tr.recDefs[d.Name] = info
		// symbolic state: every component read is recorded and becomes a leading parameter
		symState := &State{M: map[string]string{}, sym: map[string]bool{}}
		n := &Env{tr: tr, vars: map[string]*Val{}, st: symState, old: nil}
		var ps []string
		for _, p := range d.Params {
			s, t := tr.sortOfText(p.Type)
			n.vars[p.Name] = mkVal("p!"+p.Name, s, t)
			ps = append(ps, fmt.Sprintf("(p!%s %s)", p.Name, s))
		}
		rs, rt := tr.sortOfText(d.Ret)
		info.ret, info.retT = rs, rt
		info.pending = true
		body := n.eval(d.Body).E()
		info.pending = false
		for c := range symState.sym {
			info.comps = append(info.comps, c)
		}
		sort.Strings(info.comps)
		var hp []string
		var hargs []string
		for _, c := range info.comps {
			u.comp2(c)
			hp = append(hp, fmt.Sprintf("(|h!%s| %s)", c, u.compSort[c]))
			hargs = append(hargs, "|h!"+c+"|")
			body = strings.ReplaceAll(body, "h!"+c+" ", "|h!"+c+"| ")
			body = strings.ReplaceAll(body, "h!"+c+")", "|h!"+c+"|)")
		}
		// patch self-calls: placeholder "(REC!name " -> "(name h!.. "
		self := "(" + d.Name
		if len(hargs) > 0 {
			self += " " + strings.Join(hargs, " ")
		}
		body = strings.ReplaceAll(body, "(REC!"+d.Name, self)
		u.decls = append(u.decls, fmt.Sprintf("(define-fun-rec %s (%s) %s %s)", d.Name, strings.Join(append(hp, ps...), " "), rs, body))
	}
	var as []string
	if info.pending {
		as = append(as, "REC!"+d.Name)
	} else {
		as = append(as, d.Name)
		for _, c := range info.comps {
			as = append(as, e.st.get(u, c))
		}
	}
	for i, a := range x.Args {
		as = append(as, e.coerce(e.eval(a), d.Params[i].Type).E())
	}
	return mkVal("("+strings.Join(as, " ")+")", info.ret, info.retT)
}

type recInfo struct {
	comps   []string
	ret     string
	retT    types.Type
	pending bool
}

func (tr *Translator) resolveQualified(txt string) types.Type {
	if strings.HasPrefix(txt, "*") {
		if t := tr.resolveQualified(txt[1:]); t != nil {
			return types.NewPointer(t)
		}
		return nil
	}
	if strings.HasPrefix(txt, "[]") {
		if t := tr.resolveQualified(txt[2:]); t != nil {
			return types.NewSlice(t)
		}
		return nil
	}
	i := strings.Index(txt, ".")
	if i < 0 {
		return nil
	}
	pkgName, typeName := txt[:i], txt[i+1:]
	seen := map[*types.Package]bool{}
	var find func(p *types.Package, depth int) types.Type
	find = func(p *types.Package, depth int) types.Type {
		if seen[p] || depth > 3 {
			return nil
		}
		seen[p] = true
		if p.Name() == pkgName {
			if o := p.Scope().Lookup(typeName); o != nil {
				return o.Type()
			}
		}
		for _, imp := range p.Imports() {
			if t := find(imp, depth+1); t != nil {
				return t
			}
		}
		return nil
	}
	return find(tr.tpkg, 0)
}
