package main

// Discharging obligations with the installed SMT solvers.

import (
	"bytes"
	"context"
	"fmt"
	"os"
	"os/exec"
	"path/filepath"
	"strings"
	"sync"
	"sync/atomic"
	"time"
)

func (o *Obligation) query(forCvc5 bool) string { return o.queryMode(forCvc5, false) }

// queryMode: skeleton = prune facts down to the control skeleton plus what the goal's own symbols need
func (o *Obligation) queryMode(forCvc5 bool, skeleton bool) string {
	var sb strings.Builder
	if forCvc5 {
		sb.WriteString("(set-option :produce-models true)\n(set-logic ALL)\n")
	} else {
		sb.WriteString("(set-option :produce-models true)\n")
	}
	tr := o.tr
	if tr != nil {
		for _, d := range tr.u.decls {
			sb.WriteString(d)
			sb.WriteByte('\n')
		}
		var keep []bool
		if !tr.noPrune && os.Getenv("GOVC_NOPRUNE") == "" {
			keep = tr.relevantFacts(o.Goal, o.Extra, o.NFacts, skeleton)
		}
		axKeep := tr.relevantAxioms(o, keep)
		for i, f := range tr.facts[:o.NFacts] {
			if keep != nil && !keep[i] {
				continue
			}
			if i >= tr.axiomFrom && i < tr.axiomTo && axKeep != nil && !axKeep[i-tr.axiomFrom] {
				continue
			}
			sb.WriteString("(assert ")
			sb.WriteString(f)
			sb.WriteString(")\n")
		}
	}
	for _, e := range o.Extra {
		sb.WriteString(e)
		sb.WriteByte('\n')
	}
	if o.Expect == "sat" {
		sb.WriteString("(assert " + o.Goal + ")\n")
	} else {
		sb.WriteString("(assert (not " + o.Goal + "))\n")
	}
	sb.WriteString("(check-sat)\n")
	if tr != nil && tr.uninterpStrings {
		return abstractStrings(sb.String())
	}
	return sb.String()
}

type solverSpec struct {
	name string
	args func(timeout int, file string) []string
	cvc5 bool
}

var solvers = []solverSpec{
	{"z3-new", func(t int, f string) []string { return []string{"z3-new", fmt.Sprintf("-T:%d", t), "-smt2", f} }, false},
	{"z3", func(t int, f string) []string { return []string{"z3", fmt.Sprintf("-T:%d", t), "-smt2", f} }, false},
	{"cvc5", func(t int, f string) []string {
		return []string{"cvc5", "--strings-exp", fmt.Sprintf("--tlimit=%d", t*1000), f}
	}, true},
}

func runSolver(s solverSpec, timeout int, file string) (string, float64, string) {
	ctx, cancel := context.WithTimeout(context.Background(), time.Duration(timeout+2)*time.Second)
	defer cancel()
	a := s.args(timeout, file)
	cmd := exec.CommandContext(ctx, a[0], a[1:]...)
	var out bytes.Buffer
	cmd.Stdout = &out
	cmd.Stderr = &out
	t0 := time.Now()
	_ = cmd.Run()
	dt := time.Since(t0).Seconds()
	res := "unknown"
	for _, line := range strings.Split(out.String(), "\n") {
		line = strings.TrimSpace(line)
		if line == "sat" || line == "unsat" || line == "unknown" || line == "timeout" {
			res = line
			break
		}
		if strings.HasPrefix(line, "(error") {
			res = "error: " + line
			break
		}
	}
	return res, dt, out.String()
}

// discharge runs the solvers on one obligation.
//  1. z3-new with MBQI off (E-matching only): proofs are found fast, and a failing goal comes back at once
//     as "unknown (incomplete quantifiers)" together with a candidate model;
//  2. on anything but unsat: z3-new with default settings, z3 4.8.12 and cvc5 raced under the timeout;
//  3. still undecided: status "unknown" (or "failed" if some solver said sat), candidate model kept for replay.
func discharge(o *Obligation, dir string, timeout int, wantModel bool) {
	if o.Expect == "preset" {
		return // status decided by the translator
	}
	base := filepath.Join(dir, sanitize(o.Name))
	f0 := base + ".nomb.smt2"
	f1 := base + ".smt2"
	f2 := base + ".cvc5.smt2"
	definite := func(r string) bool { return r == "sat" || r == "unsat" }
	if o.Expect != "sat" && o.tr != nil && os.Getenv("GOVC_NOSKEL") == "" {
		// stage 0: a small query (control skeleton + the goal's own cone); unsat here is a proof
		fs := base + ".skel.smt2"
		os.WriteFile(fs, []byte("(set-option :smt.auto_config false)\n(set-option :smt.mbqi false)\n"+o.queryMode(false, true)), 0o644)
		r0, dt0, _ := runSolver(solvers[0], 3, fs)
		if r0 == "unsat" {
			o.Status, o.Solver, o.Time = "proved", "z3-new(skeleton)", dt0
			if os.Getenv("GOVC_KEEP") == "" {
				os.Remove(fs)
			}
			return
		}
		o.Time += dt0
		os.Remove(fs)
	}
	q := o.query(false)
	os.WriteFile(f0, []byte("(set-option :smt.auto_config false)\n(set-option :smt.mbqi false)\n(set-option :smt.candidate_models true)\n"+q+"(get-info :reason-unknown)\n(get-model)\n"), 0o644)
	t0 := timeout
	if o.Expect == "sat" && t0 > 10 {
		t0 = 10 // reachability checks: only a quick definite unsat matters
	}
	res, dt, out := runSolver(solvers[0], t0, f0)
	o.Solver = "z3-new"
	o.Time += dt
	o.Model = out
	if o.Expect == "sat" {
		// reachability check: only a definite unsat (vacuous contract) matters
		if res == "unsat" {
			o.Status = "vacuous"
		} else {
			o.Status = "proved"
			os.Remove(f0)
		}
		return
	}
	if !definite(res) || res == "sat" {
		os.WriteFile(f1, []byte(q+"(get-model)\n"), 0o644)
		os.WriteFile(f2, []byte(o.query(true)), 0o644)
		type r struct {
			res, out, name string
			dt             float64
		}
		ch := make(chan r, 3)
		go func() { a, b, c := runSolver(solvers[0], timeout, f1); ch <- r{a, c, "z3-new(mbqi)", b} }()
		// z3 4.8.12 was caught answering unsat on a satisfiable set of string assertions (see DESIGN.md): it
		// only takes part when the query contains no string theory
		usesStrings := strings.Contains(q, "(str.") || strings.Contains(q, " String")
		go func() {
			if usesStrings {
				ch <- r{"unknown", "", "z3(skipped: string theory)", 0}
				return
			}
			a, b, c := runSolver(solvers[1], timeout, f1)
			ch <- r{a, c, "z3", b}
		}()
		go func() { a, b, c := runSolver(solvers[2], timeout, f2); ch <- r{a, c, "cvc5", b} }()
		var got *r
		maxdt := 0.0
		for i := 0; i < 3; i++ {
			x := <-ch
			if x.dt > maxdt {
				maxdt = x.dt
			}
			if definite(x.res) && got == nil {
				y := x
				got = &y
				if x.res == "unsat" {
					break
				}
			}
			if strings.HasPrefix(x.res, "error") {
				o.Model += "\n[" + x.name + "] " + x.out
			}
		}
		if got != nil {
			if !(res == "sat" && got.res != "unsat") {
				res = got.res
				o.Solver = got.name
				if got.res == "sat" {
					o.Model = got.out
				}
			}
			o.Time += got.dt
		} else {
			o.Time += maxdt
		}
	}
	switch {
	case o.Expect == "sat":
		switch res {
		case "sat":
			o.Status = "proved"
		case "unsat":
			o.Status = "vacuous"
		default:
			o.Status = "proved" // reachability undecided: not counted against the function
			o.Solver += "(undecided)"
		}
	case res == "unsat":
		o.Status = "proved"
		os.Remove(f0)
		os.Remove(f1)
		os.Remove(f2)
	case res == "sat":
		o.Status = "failed"
	default:
		o.Status = "unknown"
		if strings.HasPrefix(res, "error") {
			o.Status = "error"
		}
	}
}

var failedSoFar int32

func dischargeAll(obls []*Obligation, dir string, timeout int, workers int) {
	os.MkdirAll(dir, 0o755)
	var wg sync.WaitGroup
	ch := make(chan *Obligation)
	for i := 0; i < workers; i++ {
		wg.Add(1)
		go func() {
			defer wg.Done()
			for o := range ch {
				t := timeout
				if knownFindingNames()[baseOblName(o.Name)] && t > 10 {
					t = 10 // an obligation recorded as a known finding is expected to fail: no long search
				}
				// once a few obligations of this run have failed, the run is going to report a violation whatever the
				// rest does: the remaining obligations only add detail and get a short search, so that a check on a
				// broken tree ends in minutes.  On a tree where everything is proved this never triggers.
				if n := atomic.LoadInt32(&failedSoFar); n >= 12 && t > 5 {
					t = 5
				} else if n >= 3 && t > 15 {
					t = 15
				}
				o.limit = t
				discharge(o, dir, t, true)
				if o.Status != "proved" && !knownFindingNames()[baseOblName(o.Name)] {
					atomic.AddInt32(&failedSoFar, 1)
				}
			}
		}()
	}
	for _, o := range obls {
		ch <- o
	}
	close(ch)
	wg.Wait()
}

// relevantAxioms: a global axiom of the contract file is put into a query only if one of the uninterpreted functions it
// speaks about occurs in the goal, in a kept fact or in an axiom already selected (fixpoint).  Dropping an axiom can
// only make a proof harder, never unsound.
var genericSyms = map[string]bool{"str_lower": true, "obase": true, "ftag": true, "fbase": true, "eidx": true, "ea": true, "sla": true, "jv": true,
	"oCnt": true, "oVal": true, "isObj": true, "jNull": true, "if_t": true, "if_v": true, "sl_len": true, "sl_arr": true, "sl_off": true, "sl_cap": true, "select": true, "store": true}

func (tr *Translator) declaredFuns() map[string]bool {
	if tr.declFuns != nil && tr.declFunsN == len(tr.u.decls) {
		return tr.declFuns
	}
	m := map[string]bool{}
	for _, d := range tr.u.decls {
		for _, pre := range []string{"(declare-fun ", "(define-fun-rec ", "(define-fun "} {
			if strings.HasPrefix(d, pre) {
				rest := d[len(pre):]
				if j := strings.IndexAny(rest, " ("); j > 0 {
					m[rest[:j]] = true
				}
			}
		}
	}
	tr.declFuns, tr.declFunsN = m, len(tr.u.decls)
	return m
}

func funSymsIn(s string, funs map[string]bool, out map[string]bool) {
	i, n := 0, len(s)
	for i < n {
		c := s[i]
		if c == '"' {
			j := i + 1
			for j < n && s[j] != '"' {
				j++
			}
			i = j + 1
			continue
		}
		if c == '(' || c == ')' || c == ' ' || c == '\n' {
			i++
			continue
		}
		j := i
		for j < n && s[j] != '(' && s[j] != ')' && s[j] != ' ' && s[j] != '\n' && s[j] != '"' {
			j++
		}
		if tok := s[i:j]; funs[tok] && !genericSyms[tok] && !strings.HasPrefix(tok, "fa_") && !strings.HasPrefix(tok, "box_") && !strings.HasPrefix(tok, "unbox_") {
			out[tok] = true
		}
		i = j
	}
}

func (tr *Translator) relevantAxioms(o *Obligation, keep []bool) []bool {
	if tr.axiomTo <= tr.axiomFrom || os.Getenv("GOVC_ALLAXIOMS") != "" {
		return nil
	}
	funs := tr.declaredFuns()
	used := map[string]bool{}
	funSymsIn(o.Goal, funs, used)
	for _, e := range o.Extra {
		funSymsIn(e, funs, used)
	}
	for i, f := range tr.facts[:o.NFacts] {
		if i >= tr.axiomFrom && i < tr.axiomTo {
			continue
		}
		if keep != nil && !keep[i] {
			continue
		}
		funSymsIn(f, funs, used)
	}
	n := tr.axiomTo - tr.axiomFrom
	if tr.axiomSyms == nil {
		tr.axiomSyms = make([]map[string]bool, n)
		for k := 0; k < n; k++ {
			m := map[string]bool{}
			funSymsIn(tr.facts[tr.axiomFrom+k], funs, m)
			tr.axiomSyms[k] = m
		}
	}
	sel := make([]bool, n)
	for changed := true; changed; {
		changed = false
		for k := 0; k < n; k++ {
			if sel[k] {
				continue
			}
			syms := tr.axiomSyms[k]
			hit := len(syms) == 0
			for sname := range syms {
				if used[sname] {
					hit = true
					break
				}
			}
			if hit {
				sel[k] = true
				changed = true
				for sname := range syms {
					used[sname] = true
				}
			}
		}
	}
	return sel
}

var kfNames map[string]bool
var kfOnce sync.Once

func knownFindingNames() map[string]bool {
	kfOnce.Do(func() {
		kfNames = map[string]bool{}
		for _, f := range loadFindings().Findings {
			kfNames[f.Obligation] = true
		}
	})
	return kfNames
}

// crossCheck (thorough tier): every obligation the first solver proved is put to a second one (z3 4.8.12 when the query
// has no string theory, else cvc5) for 20 s.  A definite `sat` there contradicts the proof: the obligation is failed.
func crossCheck(obls []*Obligation, dir string, workers int) (agree, silent, conflicts int) {
	var mu sync.Mutex
	var wg sync.WaitGroup
	ch := make(chan *Obligation)
	for i := 0; i < workers; i++ {
		wg.Add(1)
		go func() {
			defer wg.Done()
			for o := range ch {
				if o.Status != "proved" || o.Expect == "sat" || o.tr == nil {
					continue
				}
				base := filepath.Join(dir, sanitize(o.Name))
				q := o.query(false)
				usesStrings := strings.Contains(q, "(str.") || strings.Contains(q, " String")
				var res string
				if usesStrings {
					f := base + ".x.cvc5.smt2"
					os.WriteFile(f, []byte(o.query(true)), 0o644)
					res, _, _ = runSolver(solvers[2], 20, f)
					os.Remove(f)
				} else {
					f := base + ".x.smt2"
					os.WriteFile(f, []byte(q), 0o644)
					res, _, _ = runSolver(solvers[1], 20, f)
					os.Remove(f)
				}
				mu.Lock()
				switch res {
				case "unsat":
					agree++
				case "sat":
					conflicts++
					o.Status = "failed"
					o.Solver += " (contradicted by the second solver)"
				default:
					silent++
				}
				mu.Unlock()
			}
		}()
	}
	for _, o := range obls {
		ch <- o
	}
	close(ch)
	wg.Wait()
	return
}
