package main

// SSA -> verification conditions.

import (
	"fmt"
	"go/ast"
	"os"
	"go/constant"
	"go/token"
	"go/types"
	"sort"
	"strings"

	"golang.org/x/tools/go/ssa"
)

const pkgPath = "github.com/go-openapi/spec"

type Obligation struct {
	Name   string
	Kind   string // safe, pre, post, inv, dec, frame, lemma, vacuity
	Fn     string
	Props  []string
	Goal   string // formula that must be valid given the facts
	NFacts int
	Extra  []string // declarations local to this obligation (skolems)
	Pos    string
	Src    string // contract clause text, if any
	tr     *Translator
	// expectation: "unsat" for a proof obligation; "sat" for vacuity/reachability checks
	Expect string
	// results
	Status string // proved, failed, unknown, vacuous
	Solver string
	Time   float64
	Model  string
	Inherited       bool // counted for the property because a function under it relied on this function's contract
	replayConfirmed bool
	limit           int // per-stage solver limit this obligation ran with (seconds)
	replayNote      string
}

type unsupported struct{ msg string }

func unsup(format string, args ...interface{}) { panic(unsupported{fmt.Sprintf(format, args...)}) }

type Translator struct {
	globalLits map[*ssa.Global]*string
	prog      *ssa.Program
	spkg      *ssa.Package
	tpkg      *types.Package
	fset      *token.FileSet
	contracts *Contracts
	u         *Universe
	facts     []string
	obls      []*Obligation
	typeCache map[string]types.Type
	recDefs   map[string]*recInfo
	cur       *State
	reach     string
	warnings  []string
	globals   map[string]bool
	funcVals  map[string]bool
	closures  map[string]*closureInfo
	stack     []*ssa.Function
	nameCount map[string]int
	topKey    string
	topProps  []string
	oblFilter func(name string) bool
	trusted   map[string]bool // assumed contracts / axioms used
	epoch     int
	scanFn    func(fn *ssa.Function, blocks map[*ssa.BasicBlock]bool, depth int)
	ghosts         map[string]string
	reflectOf      map[string]*Val
	protected      []string
	protectedLocalTypes map[string]types.Type // element type of each protected local
	protectedTypes map[string]types.Type
	appendView     bool
	metaSchema     map[string]interface{}
	inlineAnyway   map[string]bool
	uninterpStrings bool
	finfo          []factInfo
	fidx           map[string][]int
	fidxN          int
	defCount       map[string]int
	noPrune        bool
	factDefs       map[int]string
	paramHolders   []paramHolder
	pendingEpochAlloc int
	callArgs       []string
	callLocalArgs  map[string]bool // protected locals passed by value to the call being translated
	callArgTypes   map[string]types.Type // static pointee / element type of a passed pointer term (absent = unknown)
	reachConsts    map[string]bool
	autoRecvNonNil bool
	safeOnly       bool
	axiomFrom, axiomTo int // facts[axiomFrom:axiomTo] are the global axioms of the contract file
	axiomSyms      []map[string]bool
	declFuns       map[string]bool
	declFunsN      int
	usedContracts  map[string]bool // in-package functions whose contracts this verification relied on (modular calls, laws)
}

type closureInfo struct {
	fn       *ssa.Function
	bindings []*Val
}

func newTranslator(prog *ssa.Program, spkg *ssa.Package, c *Contracts) *Translator {
	tr := &Translator{prog: prog, spkg: spkg, tpkg: spkg.Pkg, fset: prog.Fset, contracts: c, u: newUniverse(),
		typeCache: map[string]types.Type{}, recDefs: map[string]*recInfo{}, globals: map[string]bool{}, funcVals: map[string]bool{},
		closures: map[string]*closureInfo{}, nameCount: map[string]int{}, trusted: map[string]bool{}, ghosts: map[string]string{}, reflectOf: map[string]*Val{}, protectedTypes: map[string]types.Type{}, defCount: map[string]int{}, inlineAnyway: map[string]bool{}, reachConsts: map[string]bool{}}
	for _, cn := range []string{"ALLOC", "GCnt", "GLast"} {
		tr.u.comp(cn)
	}
	tr.u.decls = append(tr.u.decls, "(assert (> ALLOC_0 0))")
	for _, s := range c.Smt {
		tr.u.decls = append(tr.u.decls, s)
	}
	for _, g := range c.Ghosts {
		sort, _ := tr.sortOfText(g.Type)
		name := "GV_" + g.Name
		tr.u.compSort[name] = sort
		tr.u.comps = append(tr.u.comps, name)
		tr.u.declConst(name+"_0", sort)
		tr.ghosts[g.Name] = name
	}
	tr.cur = &State{M: map[string]string{}}
	tr.reach = "true"
	tr.u.onLazyFact = func(f string) { tr.fact(f) }
	return tr
}

func fnKey(fn *ssa.Function) string {
	s := fn.String()
	s = strings.ReplaceAll(s, pkgPath+".", "")
	return s
}

func (tr *Translator) warn(format string, args ...interface{}) {
	tr.warnings = append(tr.warnings, fmt.Sprintf(format, args...))
}

func (tr *Translator) fact(f string) {
	if f == "true" {
		return
	}
	tr.facts = append(tr.facts, f)
}

// factFor adds a fact that only constrains the generated constant `name` (e.g. the relation of a
// havocked component to its previous value): it is irrelevant to goals that do not depend on name.
func (tr *Translator) factFor(name, f string) {
	if f == "true" {
		return
	}
	if tr.factDefs == nil {
		tr.factDefs = map[int]string{}
	}
	tr.factDefs[len(tr.facts)] = name
	tr.facts = append(tr.facts, f)
}

// assume adds a fact guarded by the reachability of the current point.
func (tr *Translator) assume(f string) { tr.fact(implies(tr.reach, f)) }

func (tr *Translator) define(prefix, sort, e string) string {
	n := tr.u.freshConst(prefix, sort)
	tr.defCount[n]++
	tr.fact(eq(n, e))
	return n
}

func (tr *Translator) posOf(p token.Pos) string {
	if !p.IsValid() {
		return ""
	}
	ps := tr.fset.Position(p)
	f := ps.Filename
	if i := strings.LastIndex(f, "/"); i >= 0 {
		f = f[i+1:]
	}
	return fmt.Sprintf("%s:%d", f, ps.Line)
}

func (tr *Translator) oblige(kind, name, goal string, pos token.Pos, props []string, src string) *Obligation {
	tr.nameCount[name]++
	if n := tr.nameCount[name]; n > 1 {
		name = fmt.Sprintf("%s#%d", name, n)
	}
	if props == nil {
		props = tr.topProps
	}
	o := &Obligation{Name: name, Kind: kind, Fn: tr.topKey, Props: props, Goal: implies(tr.reach, goal), NFacts: len(tr.facts), Pos: tr.posOf(pos), Src: src, tr: tr, Expect: "unsat"}
	if goal == "true" {
		return o // trivially true: not recorded
	}
	tr.obls = append(tr.obls, o)
	return o
}

// obligeAssume records an obligation and afterwards assumes it (assert; assume).
func (tr *Translator) obligeAssume(kind, name, goal string, pos token.Pos) {
	if goal == "true" {
		return
	}
	tr.oblige(kind, name, goal, pos, nil, "")
	tr.assume(goal)
}

// ---------------------------------------------------------------------------
// memory

func (tr *Translator) load(st *State, addr string, t types.Type) *Val {
	return tr.loadTag(st, addr, t, "cell")
}

// loadTag reads a value of type t at addr; tag names the partition of a leaf-typed cell.
func (tr *Translator) loadTag(st *State, addr string, t types.Type, tag string) *Val {
	u := tr.u
	if s, _ := structOf(t); s != nil {
		sname := u.sortOf(t)
		var parts []*Val
		for i := 0; i < s.NumFields(); i++ {
			parts = append(parts, tr.loadTag(st, u.fa(addr, t, i), s.Field(i).Type(), sname[2:]+"_"+sanitize(s.Field(i).Name())))
		}
		return u.mkStruct(t, parts)
	}
	if _, ok := t.Underlying().(*types.Array); ok {
		unsup("load of array value %v", t)
	}
	c := compForSort(u, t) + "$" + tag
	return mkVal("(select "+st.get(u, c)+" "+addr+")", u.sortOf(t), t)
}

func (tr *Translator) store(addr string, t types.Type, v *Val) { tr.storeTag(addr, t, v, "cell") }

func (tr *Translator) storeTag(addr string, t types.Type, v *Val, tag string) {
	u := tr.u
	if s, _ := structOf(t); s != nil {
		sname := u.sortOf(t)
		for i := 0; i < s.NumFields(); i++ {
			tr.storeTag(u.fa(addr, t, i), s.Field(i).Type(), u.fieldOf(v, i), sname[2:]+"_"+sanitize(s.Field(i).Name()))
		}
		return
	}
	if _, ok := t.Underlying().(*types.Array); ok {
		unsup("store of array value %v", t)
	}
	c := compForSort(u, t) + "$" + tag
	tr.setComp(c, "(store "+tr.cur.get(u, c)+" "+addr+" "+v.E()+")")
}

func (tr *Translator) setComp(c, e string) {
	tr.u.comp2(c)
	n := tr.define(sanitize(c), tr.u.compSort[c], e)
	tr.cur.M[c] = n
}

func (tr *Translator) havocComp(c string) string {
	tr.u.comp2(c)
	n := tr.u.freshConst(sanitize(c), tr.u.compSort[c])
	tr.cur.M[c] = n
	if strings.HasPrefix(c, "MD_") {
		// the nil map has an empty domain in every state (stores to it are panics, never modelled)
		s := tr.u.compSort[c]
		ks := arrayElemSortPrefix(s)
		tr.fact(fmt.Sprintf("(= (select %s 0) ((as const %s) false))", n, ks))
	}
	if strings.HasPrefix(c, "ML_") {
		tr.fact(fmt.Sprintf("(forall ((a Int)) (! (>= (select %s a) 0) :pattern ((select %s a))))", n, n))
	}
	if strings.HasPrefix(c, "MV_") {
		if f := tr.u.mapValWF(c, n); f != "" {
			tr.factFor(n, f)
		}
	}
	return n
}

// "(Array Int (Array K Bool))" -> "(Array K Bool)"
func arrayElemSortPrefix(s string) string {
	return s[len("(Array Int ") : len(s)-1]
}

func (tr *Translator) alloc() string {
	u := tr.u
	a := u.freshConst("a", "Int")
	al := tr.cur.get(u, "ALLOC")
	tr.fact(fmt.Sprintf("(and (>= %s %s) (> %s 0) (= (obase %s) %s) (= (ftag %s) 0))", a, al, a, a, a, a))
	tr.setComp("ALLOC", "(+ "+a+" 1)")
	return a
}

// ---------------------------------------------------------------------------
// function context

type retInfo struct {
	reach string
	vals  []*Val
	st    *State
	pos   token.Pos
}

type deferred struct {
	call  *ssa.CallCommon
	block *ssa.BasicBlock
	pos   token.Pos
	cond  string // reachability of the defer statement
}

// mergeStates joins the heap states of alternative paths (conds[i] holds on the path that ends in states[i]).
func (tr *Translator) mergeStates(conds []string, states []*State) *State {
	u := tr.u
	st := &State{M: map[string]string{}}
	st.Epoch = states[0].Epoch
	for _, s := range states[1:] {
		if s.Epoch != st.Epoch {
			tr.epoch++
			st.Epoch = tr.epoch
			var edges []epochEdge
			for i, s2 := range states {
				edges = append(edges, epochEdge{conds[i], s2.Epoch})
			}
			u.epochs[tr.epoch] = epochRel{merge: edges}
			break
		}
	}
	keys := map[string]bool{}
	for _, s := range states {
		for k := range s.M {
			keys[k] = true
		}
	}
	var ks []string
	for k := range keys {
		ks = append(ks, k)
	}
	sort.Strings(ks)
	for _, k := range ks {
		if _, ok := u.compSort[k]; !ok {
			continue
		}
		first := states[0].get(u, k)
		same := true
		for _, s := range states[1:] {
			if s.get(u, k) != first {
				same = false
			}
		}
		if same {
			st.M[k] = first
			continue
		}
		n := u.freshConst(k, u.compSort[k])
		for i, s := range states {
			tr.fact(implies(conds[i], eq(n, s.get(u, k))))
		}
		st.M[k] = n
	}
	return st
}

type fctx struct {
	tr       *Translator
	fn       *ssa.Function
	prefix   string
	vals     map[ssa.Value][]*Val
	reach    map[*ssa.BasicBlock]string
	out      map[*ssa.BasicBlock]*State
	edge     map[[2]int]string
	freeVars []*Val
	defers   []deferred
	rets     []retInfo
	top      bool
	contract *FuncContract
	entrySt  *State
	params   map[string]*Val
	loopOrd  map[*ssa.BasicBlock]int
	loopVars map[string]*Val
	backSrc  map[*ssa.BasicBlock][]*ssa.BasicBlock // loop head -> back-edge sources
	loopMeasure map[*ssa.BasicBlock][]string
	ranges   map[ssa.Value]*rangeInfo
	nonNil   map[ssa.Value]bool
	loopMods map[*ssa.BasicBlock][]string
	frameItems map[string][]assignItem
	frameKnown bool
	frameUnspec bool
}

type rangeInfo struct {
	x     *Val
	isMap bool
	key   string // state key of the seen-set
	mt    *types.Map
}

var fctxCounter int

func (tr *Translator) newFctx(fn *ssa.Function) *fctx {
	fctxCounter++
	fc := &fctx{tr: tr, fn: fn, prefix: fmt.Sprintf("f%d_", fctxCounter), vals: map[ssa.Value][]*Val{}, reach: map[*ssa.BasicBlock]string{},
		out: map[*ssa.BasicBlock]*State{}, edge: map[[2]int]string{}, params: map[string]*Val{}, loopOrd: map[*ssa.BasicBlock]int{},
		loopVars: map[string]*Val{}, backSrc: map[*ssa.BasicBlock][]*ssa.BasicBlock{}, ranges: map[ssa.Value]*rangeInfo{}, nonNil: map[ssa.Value]bool{},
		loopMeasure: map[*ssa.BasicBlock][]string{}, loopMods: map[*ssa.BasicBlock][]string{}}
	return fc
}

// value lookup ---------------------------------------------------------------

func (fc *fctx) val(v ssa.Value) *Val {
	vs := fc.valN(v)
	if len(vs) != 1 {
		unsup("tuple used as value: %s", v.Name())
	}
	return vs[0]
}

func (fc *fctx) valN(v ssa.Value) []*Val {
	if vs, ok := fc.vals[v]; ok {
		return vs
	}
	tr := fc.tr
	u := tr.u
	switch x := v.(type) {
	case *ssa.Const:
		return []*Val{tr.constVal(x)}
	case *ssa.Global:
		name := "g_" + sanitize(x.Name())
		if x.Pkg != nil && x.Pkg.Pkg.Path() != pkgPath {
			name = "g_" + sanitize(x.Pkg.Pkg.Path()) + "_" + sanitize(x.Name())
		}
		if !tr.globals[name] {
			tr.globals[name] = true
			u.declConst(name, "Int")
			idx := len(tr.globals)
			// globals are distinct allocated objects below ALLOC_0
			u.decls = append(u.decls, fmt.Sprintf("(assert (and (> %s 0) (= (obase %s) %s) (< %s ALLOC_0) (= (ftag %s) 0) (= (gidx %s) %d)))", name, name, name, name, name, name, idx))
			u.decl("gidx", "(declare-fun gidx (Int) Int)")
			// move gidx decl before use
			tr.hoistDecl("(declare-fun gidx (Int) Int)")
		}
		return []*Val{mkVal(name, "Int", x.Type())}
	case *ssa.Function:
		name := "fn_" + sanitize(fnKey(x))
		if !tr.funcVals[name] {
			tr.funcVals[name] = true
			u.declConst(name, "Int")
			u.decl("fnid", "(declare-fun fnid (Int) Int)")
			tr.hoistDecl("(declare-fun fnid (Int) Int)")
			u.decls = append(u.decls, fmt.Sprintf("(assert (and (> %s 0) (= (fnid %s) %d)))", name, name, len(tr.funcVals)))
		}
		tr.closures[name] = &closureInfo{fn: x}
		return []*Val{mkVal(name, "Int", x.Type())}
	case *ssa.FreeVar:
		for i, fv := range fc.fn.FreeVars {
			if fv == x {
				if i < len(fc.freeVars) {
					return []*Val{fc.freeVars[i]}
				}
			}
		}
		unsup("free variable %s without binding", x.Name())
	case *ssa.Builtin:
		unsup("builtin %s used as value", x.Name())
	}
	unsup("value %s (%T) used before definition in %s", v.Name(), v, fnKey(fc.fn))
	return nil
}

func (tr *Translator) hoistDecl(text string) {
	// make sure a declaration precedes the assertions that use it: move to front
	for i, d := range tr.u.decls {
		if d == text {
			copy(tr.u.decls[1:i+1], tr.u.decls[0:i])
			tr.u.decls[0] = text
			return
		}
	}
}

func (tr *Translator) constVal(c *ssa.Const) *Val {
	u := tr.u
	t := c.Type()
	if c.Value == nil {
		// zero value (nil pointer, nil slice, zero struct ...)
		if b, ok := t.Underlying().(*types.Basic); ok && b.Kind() == types.UntypedNil {
			return mkVal("0", "Int", t)
		}
		return u.zero(t)
	}
	switch c.Value.Kind() {
	case constant.Bool:
		if constant.BoolVal(c.Value) {
			return mkVal("true", "Bool", t)
		}
		return mkVal("false", "Bool", t)
	case constant.String:
		return mkVal(smtString(constant.StringVal(c.Value)), "String", t)
	case constant.Int:
		if u.sortOf(t) == "Real" {
			return mkVal(c.Value.ExactString()+".0", "Real", t)
		}
		s := c.Value.ExactString()
		if strings.HasPrefix(s, "-") {
			s = "(- " + s[1:] + ")"
		}
		return mkVal(s, "Int", t)
	case constant.Float:
		f, _ := constant.Float64Val(c.Value)
		s := fmt.Sprintf("%f", f)
		if f < 0 {
			s = fmt.Sprintf("(- %f)", -f)
		}
		if u.sortOf(t) == "Int" {
			return mkVal(fmt.Sprintf("%d", int64(f)), "Int", t)
		}
		return mkVal(s, "Real", t)
	}
	unsup("constant %v", c)
	return nil
}

// setVal binds an SSA register, naming long terms.
func (fc *fctx) setVal(v ssa.Value, x *Val) {
	fc.vals[v] = []*Val{fc.name(v.Name(), x)}
}

func (fc *fctx) name(reg string, x *Val) *Val {
	tr := fc.tr
	if x.Parts != nil {
		// keep structure, name long parts
		ps := make([]*Val, len(x.Parts))
		for i, p := range x.Parts {
			ps[i] = fc.name(fmt.Sprintf("%s_%d", reg, i), p)
		}
		return &Val{Sort: x.Sort, T: x.T, Ctor: x.Ctor, Parts: ps}
	}
	e := x.E()
	if len(e) <= 48 {
		return x
	}
	n := tr.u.fresh(fc.prefix + reg)
	tr.u.decls = append(tr.u.decls, fmt.Sprintf("(declare-const %s %s)", n, x.Sort))
	tr.u.genConsts[n] = true
	tr.defCount[n]++
	tr.fact(eq(n, e))
	return mkVal(n, x.Sort, x.T)
}

func (fc *fctx) freshVal(reg string, t types.Type) *Val {
	s := fc.tr.u.sortOf(t)
	n := fc.tr.u.freshConst(fc.prefix+reg, s)
	return mkVal(n, s, t)
}

// ---------------------------------------------------------------------------
// control flow

func isBackEdge(p, h *ssa.BasicBlock) bool { return h.Dominates(p) }

func rpo(fn *ssa.Function) []*ssa.BasicBlock {
	seen := map[*ssa.BasicBlock]bool{}
	var post []*ssa.BasicBlock
	var dfs func(b *ssa.BasicBlock)
	dfs = func(b *ssa.BasicBlock) {
		seen[b] = true
		for _, s := range b.Succs {
			if !seen[s] && !isBackEdge(b, s) {
				dfs(s)
			}
		}
		post = append(post, b)
	}
	dfs(fn.Blocks[0])
	for i, j := 0, len(post)-1; i < j; i, j = i+1, j-1 {
		post[i], post[j] = post[j], post[i]
	}
	return post
}

// loopBody returns the natural loop of head h.
func loopBody(h *ssa.BasicBlock, srcs []*ssa.BasicBlock) map[*ssa.BasicBlock]bool {
	body := map[*ssa.BasicBlock]bool{h: true}
	var work []*ssa.BasicBlock
	for _, s := range srcs {
		if !body[s] {
			body[s] = true
			work = append(work, s)
		}
	}
	for len(work) > 0 {
		b := work[len(work)-1]
		work = work[:len(work)-1]
		for _, p := range b.Preds {
			if !body[p] {
				body[p] = true
				work = append(work, p)
			}
		}
	}
	return body
}

// run translates the body of fc.fn starting from the translator's current state.
func (fc *fctx) run(entryReach string) {
	tr := fc.tr
	fn := fc.fn
	if len(fn.Blocks) == 0 {
		unsup("function %s has no body", fnKey(fn))
	}
	// loops
	var heads []*ssa.BasicBlock
	for _, b := range fn.Blocks {
		for _, p := range b.Preds {
			if isBackEdge(p, b) {
				fc.backSrc[b] = append(fc.backSrc[b], p)
			}
		}
		if len(fc.backSrc[b]) > 0 {
			heads = append(heads, b)
		}
	}
	sort.Slice(heads, func(i, j int) bool { return heads[i].Index < heads[j].Index })
	for i, h := range heads {
		fc.loopOrd[h] = i
	}
	order := rpo(fn)
	for _, b := range order {
		if b == fn.Recover {
			continue
		}
		if b.Index == 0 {
			fc.reach[b] = entryReach
			tr.reach = entryReach
			// tr.cur stays
		} else {
			if !fc.enterBlock(b) {
				continue
			}
		}
		for _, ins := range b.Instrs {
			fc.instr(ins)
		}
		fc.out[b] = tr.cur
	}
}

// enterBlock computes reach/state/phis at the entry of b.  Returns false if b is unreachable.
func (fc *fctx) enterBlock(b *ssa.BasicBlock) bool {
	tr := fc.tr
	u := tr.u
	type inc struct {
		pred *ssa.BasicBlock
		cond string
		idx  int
	}
	var ins []inc
	for i, p := range b.Preds {
		if isBackEdge(p, b) {
			continue
		}
		if c, ok := fc.edge[[2]int{p.Index, b.Index}]; ok && fc.out[p] != nil {
			ins = append(ins, inc{p, c, i})
		}
	}
	if len(ins) == 0 {
		return false
	}
	var conds []string
	for _, in := range ins {
		conds = append(conds, in.cond)
	}
	reach := tr.define(fc.prefix+"r"+fmt.Sprint(b.Index), "Bool", or(conds...))
	tr.reachConsts[reach] = true
	// state merge
	var st *State
	if len(ins) == 1 {
		st = fc.out[ins[0].pred].clone()
	} else {
		st = &State{M: map[string]string{}}
		st.Epoch = fc.out[ins[0].pred].Epoch
		for _, in := range ins[1:] {
			if fc.out[in.pred].Epoch != st.Epoch {
				tr.epoch++
				st.Epoch = tr.epoch
				var edges []epochEdge
				for _, in2 := range ins {
					edges = append(edges, epochEdge{in2.cond, fc.out[in2.pred].Epoch})
				}
				u.epochs[tr.epoch] = epochRel{merge: edges}
				break
			}
		}
		keys := map[string]bool{}
		for _, in := range ins {
			for k := range fc.out[in.pred].M {
				keys[k] = true
			}
		}
		var ks []string
		for k := range keys {
			ks = append(ks, k)
		}
		sort.Strings(ks)
		for _, k := range ks {
			first := fc.out[ins[0].pred].get(u, k)
			same := true
			for _, in := range ins[1:] {
				if fc.out[in.pred].get(u, k) != first {
					same = false
				}
			}
			if same {
				st.M[k] = first
				continue
			}
			n := u.freshConst(k, u.compSort[k])
			for _, in := range ins {
				tr.fact(implies(in.cond, eq(n, fc.out[in.pred].get(u, k))))
			}
			st.M[k] = n
		}
	}
	tr.cur = st
	tr.reach = reach
	fc.reach[b] = reach
	// phis
	_, isHead := fc.loopOrd[b]
	var phis []*ssa.Phi
	for _, instr := range b.Instrs {
		if phi, ok := instr.(*ssa.Phi); ok {
			phis = append(phis, phi)
		} else {
			break
		}
	}
	if !isHead {
		for _, phi := range phis {
			pv := fc.freshVal(phi.Name(), phi.Type())
			for _, in := range ins {
				tr.fact(implies(in.cond, eq(pv.E(), fc.val(phi.Edges[in.idx]).E())))
			}
			fc.vals[phi] = []*Val{pv}
		}
		return true
	}
	// ---- loop head ----
	ord := fc.loopOrd[b]
	// entry values of phis
	entryVals := map[*ssa.Phi]*Val{}
	for _, phi := range phis {
		if len(ins) == 1 {
			entryVals[phi] = fc.val(phi.Edges[ins[0].idx])
		} else {
			pv := fc.freshVal(phi.Name()+"e", phi.Type())
			for _, in := range ins {
				tr.fact(implies(in.cond, eq(pv.E(), fc.val(phi.Edges[in.idx]).E())))
			}
			entryVals[phi] = pv
		}
	}
	// invariant: entry
	fc.checkInvariants(b, ord, entryVals, "entry", b.Instrs[0].Pos())
	// havoc
	body := loopBody(b, fc.backSrc[b])
	mods, all := fc.modifiedIn(body)
	if all {
		mods = append([]string{}, u.comps...)
	}
	fc.loopMods[b] = mods
	fc.checkAutoFrame(b, ord, mods, "entry", b.Instrs[0].Pos())
	preState := tr.cur.clone()
	if all {
		tr.callArgs = nil
		tr.callLocalArgs = nil
		tr.callArgTypes = nil
		tr.havocAll()
	} else {
		for _, c := range mods {
			tr.havocComp(c)
		}
	}
	fc.assumeAutoFrame(mods)
	for _, phi := range phis {
		fc.vals[phi] = []*Val{fc.freshVal(phi.Name(), phi.Type())}
	}
	// auto facts: allocation counter monotone; index phis bounded below
	if tr.cur.get(u, "ALLOC") != preState.get(u, "ALLOC") {
		tr.assume("(>= " + tr.cur.get(u, "ALLOC") + " " + preState.get(u, "ALLOC") + ")")
	}
	fc.assumeInvariants(b, ord, phis)
	// measure for decreases
	if fc.top {
		for _, cl := range fc.contractClauses("decreases", ord) {
			env := fc.envAt(tr.cur)
			m := env.eval(cl.E)
			fc.loopMeasure[b] = append(fc.loopMeasure[b], m.E())
			tr.oblige("dec", "dec/"+fnKey(fc.fn)+"/loop"+fmt.Sprint(ord)+"/bounded", "(>= "+m.E()+" 0)", b.Instrs[0].Pos(), cl.Props, cl.Src)
		}
	}
	return true
}

func (tr *Translator) havocAll() {
	// protection entries: cells a satisfying cond keep their value; comps = the partitions the protected object can have
	// cells in (nil = any partition)
	type protEntry struct {
		cond  string
		comps map[string]bool
	}
	var protE []protEntry
	compsOf := func(t types.Type, tag string) map[string]bool {
		if t == nil {
			return nil
		}
		m := map[string]bool{}
		for _, l := range tr.u.leavesTag(t, tag) {
			m[l.comp] = true
		}
		return m
	}
	for _, a := range tr.protected {
		var cs map[string]bool
		if t, ok := tr.protectedLocalTypes[a]; ok {
			cs = compsOf(t, "cell")
		}
		protE = append(protE, protEntry{eq("(obase a)", a), cs})
	}
	// what the callee was handed: top-level pointers, slices and interface payloads, with their static pointee type where
	// the call site shows it.  A passed pointer can only designate (a part of) a holder whose type matches.
	passed := tr.callArgs
	notPassed := func(base string, t types.Type) string {
		var cs []string
		for _, p := range passed {
			pt, known := tr.callArgTypes[p]
			if known && t != nil && pt != nil && !types.Identical(pt, t) {
				continue
			}
			if known && t == nil && pt != nil {
				// the holder is the model struct an interface parameter designates: it is neither a struct of the loader
				// machinery nor the backing array of a slice of basic values
				if _, isStruct := structOf(pt); isStruct != "" && machineryPartition("X$"+structName(pt)+"_") {
					continue
				}
				if _, isBasic := pt.Underlying().(*types.Basic); isBasic {
					continue
				}
			}
			cs = append(cs, not(eq(base, "(obase "+p+")")))
		}
		return and(cs...)
	}
	// pointer parameters of the function under verification: the objects they designate behave like holders
	// (TREE): a callee that is not handed the pointer itself does not change their pointer / slice / map cells
	type holder struct {
		addr string
		t    types.Type
	}
	var paramHolders []holder
	for _, ph := range tr.paramHolders {
		isPassed := false
		for _, a := range passed {
			if a == ph.addr {
				isPassed = true
			}
		}
		if !isPassed {
			if ph.t != nil {
				paramHolders = append(paramHolders, holder{ph.addr, ph.t})
			}
			// the object itself keeps all its cells: the callee was not handed a pointer to it, and model values are
			// trees (nothing the callee can reach points back into it)
			protE = append(protE, protEntry{and(not(eq(ph.addr, "0")), eq("(obase a)", "(obase "+ph.addr+")"), notPassed("(obase "+ph.addr+")", ph.t)), compsOf(ph.t, "cell")})
		}
	}
	// TREE assumption: the holder objects a local value points to (SchemaOrBool, SchemaOrArray, the backing arrays of
	// its slices) keep their cells across a call that was not handed a pointer to them (Go values of the model are
	// trees: the callee received copies of sub-values, from which the holder itself cannot be reached)
	type typedPtr struct {
		p string
		t types.Type
	}
	var ptrHolders []typedPtr
	type heldMap struct {
		m  string
		mt *types.Map
	}
	var heldMaps []heldMap
	var protMaps []string
	mapKeep := map[string][][2]string{} // map component -> (guard, map) pairs: ground protection facts
	var holders []holder
	for _, a := range tr.protected {
		if t, ok := tr.protectedTypes[a]; ok {
			holders = append(holders, holder{a, t})
		}
	}
	holders = append(holders, paramHolders...)
	for _, h := range holders {
		a, t := h.addr, h.t
		if os.Getenv("GOVC_NOTREE") != "" {
			continue
		}
		if tr.callLocalArgs[a] {
			continue // the local itself was passed by value: the callee can reach its holders
		}
		for _, l := range tr.u.leaves(t) {
			if kindOfComp(l.comp) == "MSlice" {
				if _, ok := l.T.Underlying().(*types.Slice); ok {
					sv := mkVal("(select "+tr.cur.get(tr.u, l.comp)+" "+tr.u.leafAddr(a, t, l.path)+")", "Slice", l.T)
					arr := tr.define("ha", "Int", slPart(sv, 0))
					hb := tr.define("hab", "Int", "(obase "+arr+")")
					protE = append(protE, protEntry{and(not(eq(arr, "0")), eq("(obase a)", hb), notPassed(hb, l.T.Underlying().(*types.Slice).Elem())), compsOf(l.T.Underlying().(*types.Slice).Elem(), "elem")})
				}
				continue
			}
			if kindOfComp(l.comp) != "MPtr" {
				continue
			}
			if _, ok := l.T.Underlying().(*types.Map); ok {
				m := tr.define("hm", "Int", "(select "+tr.cur.get(tr.u, l.comp)+" "+tr.u.leafAddr(a, t, l.path)+")")
				protMaps = append(protMaps, and(not(eq(m, "0")), eq("a", m), notPassed(m, l.T)))
				if mt, ok := l.T.Underlying().(*types.Map); ok {
					heldMaps = append(heldMaps, heldMap{m, mt})
					md, mv, _, _ := tr.u.mapComps(mt)
					g := and(not(eq(m, "0")), notPassed(m, l.T))
					for _, cn := range []string{md, mv, tr.u.mapLen(mt)} {
						mapKeep[cn] = append(mapKeep[cn], [2]string{g, m})
					}
				}
				continue
			}
			if _, ok := l.T.Underlying().(*types.Pointer); !ok {
				continue
			}
			// named as ground constants so that instantiating the quantified protection facts creates no new terms
			p := tr.define("hp", "Int", "(select "+tr.cur.get(tr.u, l.comp)+" "+tr.u.leafAddr(a, t, l.path)+")")
			hb := tr.define("hpb", "Int", "(obase "+p+")")
			pe := l.T.Underlying().(*types.Pointer).Elem()
			protE = append(protE, protEntry{and(not(eq(p, "0")), eq("(obase a)", hb), notPassed(hb, pe)), compsOf(pe, "cell")})
			ptrHolders = append(ptrHolders, typedPtr{p, pe})
			// a small union holder (SchemaOrBool, SchemaOrArray, ...): what it points to is held as well (second level)
			if st2, _ := structOf(pe); st2 != nil && len(tr.u.leaves(pe)) <= 4 {
				for _, l2 := range tr.u.leaves(pe) {
					switch lt := l2.T.Underlying().(type) {
					case *types.Pointer:
						p2 := tr.define("hp2", "Int", ite(eq(p, "0"), "0", "(select "+tr.cur.get(tr.u, l2.comp)+" "+tr.u.leafAddr(p, pe, l2.path)+")"))
						hb2 := tr.define("hpb2", "Int", "(obase "+p2+")")
						protE = append(protE, protEntry{and(not(eq(p2, "0")), eq("(obase a)", hb2), notPassed(hb2, lt.Elem())), compsOf(lt.Elem(), "cell")})
						ptrHolders = append(ptrHolders, typedPtr{p2, lt.Elem()})
					case *types.Slice:
						sv := mkVal("(select "+tr.cur.get(tr.u, l2.comp)+" "+tr.u.leafAddr(p, pe, l2.path)+")", "Slice", l2.T)
						arr := tr.define("ha2", "Int", ite(eq(p, "0"), "0", slPart(sv, 0)))
						hb2 := tr.define("hab2", "Int", "(obase "+arr+")")
						protE = append(protE, protEntry{and(not(eq(arr, "0")), eq("(obase a)", hb2), notPassed(hb2, lt.Elem())), compsOf(lt.Elem(), "elem")})
					}
				}
			}
		}
	}
	// TREE: the holders of one value are distinct objects; pointers kept in the values of a held map designate objects
	// other than the pointer holders
	for i := 0; i < len(ptrHolders); i++ {
		for j := i + 1; j < len(ptrHolders); j++ {
			if types.Identical(ptrHolders[i].t, ptrHolders[j].t) && ptrHolders[i].p != ptrHolders[j].p {
				tr.fact(implies(and(not(eq(ptrHolders[i].p, "0")), not(eq(ptrHolders[j].p, "0"))), not(eq(ptrHolders[i].p, ptrHolders[j].p))))
			}
		}
	}
	for _, hm := range heldMaps {
		vst, _ := structOf(hm.mt.Elem())
		if vst == nil {
			continue
		}
		md, mv, ks, vs := tr.u.mapComps(hm.mt)
		for fi := 0; fi < vst.NumFields(); fi++ {
			pt, ok := vst.Field(fi).Type().Underlying().(*types.Pointer)
			if !ok {
				continue
			}
			var ds []string
			fv := tr.u.fieldOf(mkVal("(select (select "+tr.cur.get(tr.u, mv)+" "+hm.m+") k)", vs, hm.mt.Elem()), fi)
			for _, h := range ptrHolders {
				if types.Identical(h.t, pt.Elem()) {
					ds = append(ds, not(eq(fv.E(), h.p)))
				}
			}
			if len(ds) > 0 {
				tr.fact(fmt.Sprintf("(forall ((k %s)) (! (=> (and (not (= %s 0)) (select (select %s %s) k) (not (= %s 0))) %s) :pattern ((select (select %s %s) k))))",
					ks, hm.m, tr.cur.get(tr.u, md), hm.m, fv.E(), and(ds...), tr.cur.get(tr.u, mv), hm.m))
			}
		}
	}
	if len(holders) > 0 || len(tr.paramHolders) > 0 {
		tr.trusted["TREE: an object designated by a pointer (or pointer-holding interface) parameter of the function under verification, and the holder objects (pointees, slice backing arrays, maps) referenced directly by a local value, are not written by a callee that was not handed a pointer to them (model values are trees)"] = true
	}
	// components touched on this path get fresh constants (related to their old value on protected locals);
	// all others are simply named by the new epoch when they are next used
	touchedSet := map[string]bool{}
	for _, k := range tr.cur.keys() {
		touchedSet[k] = true
	}
	protFor := func(c string) string {
		var cs []string
		for _, e := range protE {
			if e.comps == nil || e.comps[c] {
				cs = append(cs, e.cond)
			}
		}
		return or(cs...)
	}
	if len(protE) > 0 {
		// partitions that were only read so far may hold cells of protected locals / holders too
		for c := range tr.u.accessed {
			if strings.Contains(c, "$") {
				touchedSet[c] = true
			}
		}
	}
	for c := range tr.u.accessed {
		if len(mapKeep[c]) > 0 {
			touchedSet[c] = true
		}
	}
	_ = protMaps
	var touched []string
	for k := range touchedSet {
		touched = append(touched, k)
	}
	sort.Strings(touched)
	oldAlloc := tr.cur.get(tr.u, "ALLOC")
	oldNames := map[string]string{}
	for _, c := range touched {
		if !strings.Contains(c, "IT_") {
			oldNames[c] = tr.cur.get(tr.u, c)
		}
	}
	tr.epoch++
	newState := &State{M: map[string]string{}, Epoch: tr.epoch}
	oldState := tr.cur
	tr.cur = newState
	{
		// partitions first used after this point: related lazily to their value before the havoc
		rel := epochRel{parent: oldState.Epoch}
		if len(protE) > 0 {
			rel.keepFor = protFor
		}
		if len(mapKeep) > 0 {
			rel.keepMapsGround = mapKeep
		}
		if rel.keepFor != nil || len(rel.keepMapsGround) > 0 {
			tr.u.epochs[tr.epoch] = rel
		}
	}
	for _, c := range touched {
		if strings.Contains(c, "IT_") {
			newState.M[c] = oldState.M[c]
			continue
		}
		if c == "ALLOC" {
			continue
		}
		old := oldNames[c]
		n := tr.havocComp(c)
		// local variables whose address never leaves the function keep their contents across any call
		if cond := protFor(c); cond != "false" && strings.Contains(c, "$") {
			tr.factFor(n, fmt.Sprintf("(forall ((a Int)) (! (=> %s (= (select %s a) (select %s a))) :pattern ((select %s a))))", cond, n, old, n))
		}
		// TREE: maps held directly by a local value keep their contents
		for _, gm := range mapKeep[c] {
			// a map held directly by a local value keeps its contents: one ground fact per held map
			tr.factFor(n, implies(gm[0], eq("(select "+n+" "+gm[1]+")", "(select "+old+" "+gm[1]+")")))
		}
	}
	n := tr.havocComp("ALLOC")
	tr.fact("(>= " + n + " " + oldAlloc + ")")
	tr.u.epochAlloc[tr.epoch] = n
	// heap well-formedness is an invariant of every Go execution: cells of allocated objects reference allocated objects
	for _, c := range touched {
		if cn, ok := tr.cur.M[c]; ok {
			tr.assumeWF(c, cn, n)
		}
	}
}

// assumeWF: cells of allocated objects reference allocated objects (pointer and slice partitions).
func (tr *Translator) assumeWF(c, cn, alloc string) {
	if !strings.Contains(c, "$") {
		return
	}
	if f := wfFormula(kindOfComp(c), cn, alloc); f != "" {
		tr.factFor(cn, f)
	}
}

func wfFormula(kind, cn, alloc string) string {
	switch kind {
	case "MPtr":
		return fmt.Sprintf("(forall ((a Int)) (! (=> (< (obase a) %s) (and (>= (select %s a) 0) (< (obase (select %s a)) %s))) :pattern ((select %s a))))", alloc, cn, cn, alloc, cn)
	case "MSlice":
		return fmt.Sprintf("(forall ((a Int)) (! (=> (< (obase a) %s) (let ((s (select %s a))) (and (>= (sl_arr s) 0) (< (obase (sl_arr s)) %s) (>= (sl_off s) 0) (>= (sl_len s) 0) (>= (sl_cap s) (sl_len s)) (=> (= (sl_arr s) 0) (= (sl_cap s) 0))))) :pattern ((select %s a))))", alloc, cn, alloc, cn)
	}
	return ""
}

// leaks reports whether the address of a local allocation may become known to code outside the
// function being translated (stored, boxed, captured, or passed to a call that is not inlined).
func (tr *Translator) leaks(a *ssa.Alloc) bool {
	seen := map[ssa.Value]bool{}
	var visit func(v ssa.Value) bool
	visit = func(v ssa.Value) bool {
		if seen[v] {
			return false
		}
		seen[v] = true
		refs := v.Referrers()
		if refs == nil {
			return true
		}
		for _, ins := range *refs {
			switch x := ins.(type) {
			case *ssa.Store:
				if x.Val == v {
					return true
				}
			case *ssa.FieldAddr, *ssa.IndexAddr, *ssa.ChangeType, *ssa.Slice:
				if visit(ins.(ssa.Value)) {
					return true
				}
			case *ssa.Phi:
				if visit(x) {
					return true
				}
			case *ssa.UnOp, *ssa.Return, *ssa.DebugRef, *ssa.BinOp, *ssa.If:
				// reading through the pointer, returning or comparing it does not expose it to a callee
			case *ssa.MakeInterface, *ssa.MakeClosure, *ssa.MapUpdate, *ssa.Convert, *ssa.ChangeInterface, *ssa.TypeAssert:
				return true
			case ssa.CallInstruction:
				cc := x.Common()
				if _, ok := cc.Value.(*ssa.Builtin); ok {
					continue
				}
				callee := cc.StaticCallee()
				if callee == nil {
					return true
				}
				key := fnKey(callee)
				if callee.Pkg == tr.spkg {
					if c, ok := tr.contracts.Funcs[key]; ok {
						if c.Assigns == nil && !c.Pure {
							return true
						}
						continue
					}
					continue // inlined: its own instructions are translated, not havocked
				}
				if externals[callee.String()] != nil {
					continue
				}
				if c, ok := tr.contracts.Exts[callee.String()]; ok && (c.Assigns != nil || c.Pure) {
					continue
				}
				return true
			default:
				return true
			}
		}
		return false
	}
	return visit(a)
}

func (fc *fctx) contractClauses(kind string, loop int) []*Clause {
	if fc.contract == nil {
		return nil
	}
	var out []*Clause
	for _, cl := range fc.contract.Clauses {
		if cl.Kind == kind && (cl.Loop == loop || (cl.Loop == anyLoop && loop >= 0)) {
			out = append(out, cl)
		}
	}
	return out
}

// envAt builds the contract evaluation environment for the current function at state st.
func (fc *fctx) envAt(st *State) *Env {
	vars := map[string]*Val{}
	for k, v := range fc.params {
		vars[k] = v
	}
	for k, v := range fc.loopVars {
		vars[k] = v
	}
	return &Env{tr: fc.tr, vars: vars, st: st, old: fc.entrySt}
}

// loop variable bindings for invariants of loop `ord` given values of the phis.
func (fc *fctx) bindLoopVars(env *Env, b *ssa.BasicBlock, ord int, phiVal func(*ssa.Phi) *Val) {
	// entry values of the parameters are always available as <name>0
	for k, v := range fc.params {
		env.vars[k+"0"] = v
	}
	// a source variable that was reassigned before the loop is a named phi in a dominating block: inside
	// loop invariants its name denotes that current value
	for _, d := range fc.fn.DomPreorder() {
		if d == b || !d.Dominates(b) {
			continue
		}
		for _, instr := range d.Instrs {
			switch x := instr.(type) {
			case *ssa.Phi:
				if x.Comment != "" && x.Comment != "rangeindex" {
					if vs, ok := fc.vals[x]; ok && len(vs) == 1 {
						env.vars[x.Comment] = vs[0]
					}
				}
			case *ssa.DebugRef:
				// an address-taken local (an Alloc): its name denotes the value it holds in the state the clause is evaluated in
				if id, ok := x.Expr.(*ast.Ident); ok && x.IsAddr {
					if al, isAlloc := x.X.(*ssa.Alloc); isAlloc {
						_, isParam := fc.params[id.Name]
						if vs, ok := fc.vals[al]; ok && len(vs) == 1 {
							et := al.Type().Underlying().(*types.Pointer).Elem()
							if _, isArr := et.Underlying().(*types.Array); !isArr {
								if isParam {
									// an address-taken parameter: <name> stays its entry value, cur_<name> is what the variable holds now
									env.vars["cur_"+id.Name] = fc.tr.loadTag(env.st, vs[0].E(), et, "cell")
								} else {
									env.vars[id.Name] = fc.tr.loadTag(env.st, vs[0].E(), et, "cell")
								}
							}
						}
					}
				}
				// a local variable of the source program, assigned before the loop
				if id, ok := x.Expr.(*ast.Ident); ok && !x.IsAddr {
					if _, isParam := x.X.(*ssa.Parameter); isParam {
						continue
					}
					if vs, ok := fc.vals[x.X]; ok && len(vs) == 1 {
						env.vars[id.Name] = vs[0]
					}
				}
			}
		}
	}
	// a variable only read from the loop head on (its definition-site reference is lost when the builder lifts
	// a composite literal): a reference below the head to a value defined above it is the value at the head
	for _, d := range fc.fn.DomPreorder() {
		if d != b && !b.Dominates(d) {
			continue
		}
		for _, instr := range d.Instrs {
			x, ok := instr.(*ssa.DebugRef)
			if !ok || x.IsAddr {
				continue
			}
			id, ok := x.Expr.(*ast.Ident)
			if !ok {
				continue
			}
			if _, bound := env.vars[id.Name]; bound {
				continue
			}
			def, ok := x.X.(ssa.Instruction)
			if !ok || def.Block() == nil || def.Block() == b || !def.Block().Dominates(b) {
				continue
			}
			if _, isPhi := x.X.(*ssa.Phi); isPhi {
				continue
			}
			if vs, ok := fc.vals[x.X]; ok && len(vs) == 1 {
				env.vars[id.Name] = vs[0]
			}
		}
	}
	for _, instr := range b.Instrs {
		phi, ok := instr.(*ssa.Phi)
		if !ok {
			break
		}
		v := phiVal(phi)
		if phi.Comment == "rangeindex" {
			// $range<ord>: the slice being ranged over (the operand of the len() the head compares the index with)
			for _, in2 := range b.Instrs {
				if bo, ok := in2.(*ssa.BinOp); ok && bo.Op == token.LSS {
					if c, ok := bo.Y.(*ssa.Call); ok {
						if bi, ok := c.Call.Value.(*ssa.Builtin); ok && bi.Name() == "len" && len(c.Call.Args) == 1 {
							if vs, ok := fc.vals[c.Call.Args[0]]; ok && len(vs) == 1 {
								env.vars[fmt.Sprintf("$range%d", ord)] = vs[0]
							}
						}
					}
				}
			}
			env.vars[fmt.Sprintf("$i%d", ord)] = intVal(add(v.E(), "1"))
		} else if phi.Comment != "" {
			env.vars[phi.Comment] = v
		}
	}
}

func (fc *fctx) checkInvariants(b *ssa.BasicBlock, ord int, phiVals map[*ssa.Phi]*Val, stage string, pos token.Pos) {
	tr := fc.tr
	if fc.contract == nil {
		return
	}
	env := fc.envAt(tr.cur)
	fc.bindLoopVars(env, b, ord, func(p *ssa.Phi) *Val { return phiVals[p] })
	fc.bindSeen(env, b, ord, tr.cur)
	for i, cl := range fc.contractClauses("invariant", ord) {
		g := env.eval(cl.E)
		tr.oblige("inv", fmt.Sprintf("inv/%s/loop%d/%d/%s", fnKey(fc.fn), ord, i, stage), g.E(), pos, cl.Props, cl.Src)
	}
}

func (fc *fctx) bindSeen(env *Env, b *ssa.BasicBlock, ord int, st *State) {
	// map-range loops: $seenN is the set of keys already visited
	for _, instr := range b.Instrs {
		if nx, ok := instr.(*ssa.Next); ok {
			if ri := fc.ranges[nx.Iter]; ri != nil && ri.isMap {
				ks := fc.tr.u.sortOf(ri.mt.Key())
				env.vars[fmt.Sprintf("$seen%d", ord)] = mkVal(st.get(fc.tr.u, ri.key), "(Array "+ks+" Bool)", nil)
			}
		}
	}
}

func (fc *fctx) assumeInvariants(b *ssa.BasicBlock, ord int, phis []*ssa.Phi) {
	tr := fc.tr
	// automatic: range index lower bound
	for _, phi := range phis {
		if phi.Comment == "rangeindex" {
			tr.assume("(>= " + fc.val(phi).E() + " (- 1))")
		}
	}
	// map range: seen subset of dom
	for _, instr := range b.Instrs {
		if nx, ok := instr.(*ssa.Next); ok {
			if ri := fc.ranges[nx.Iter]; ri != nil && ri.isMap {
				md, _, ks, _ := tr.u.mapComps(ri.mt)
				seen := tr.cur.get(tr.u, ri.key)
				tr.assume(fmt.Sprintf("(forall ((k %s)) (! (=> (select %s k) (select (select %s %s) k)) :pattern ((select %s k))))", ks, seen, tr.cur.get(tr.u, md), ri.x.E(), seen))
			}
		}
	}
	if fc.contract == nil {
		return
	}
	env := fc.envAt(tr.cur)
	fc.bindLoopVars(env, b, ord, func(p *ssa.Phi) *Val { return fc.val(p) })
	fc.bindSeen(env, b, ord, tr.cur)
	for _, cl := range fc.contractClauses("invariant", ord) {
		tr.assume(env.eval(cl.E).E())
	}
	// expose loop vars to nested loops
	for k, v := range env.vars {
		if strings.HasPrefix(k, "$") {
			fc.loopVars[k] = v
		}
	}
}

// backEdge is called when control goes from the current point back to loop head h.
func (fc *fctx) backEdge(from, h *ssa.BasicBlock, cond string) {
	tr := fc.tr
	saveReach := tr.reach
	tr.reach = cond
	ord := fc.loopOrd[h]
	idx := -1
	for i, p := range h.Preds {
		if p == from {
			idx = i
		}
	}
	vals := map[*ssa.Phi]*Val{}
	for _, instr := range h.Instrs {
		if phi, ok := instr.(*ssa.Phi); ok {
			vals[phi] = fc.val(phi.Edges[idx])
		} else {
			break
		}
	}
	var pos token.Pos
	if len(from.Instrs) > 0 {
		pos = from.Instrs[len(from.Instrs)-1].Pos()
	}
	// the heap components the head havocked must be compared in the current state: invariants are
	// evaluated in tr.cur with phi = back-edge values
	fc.checkInvariants(h, ord, vals, "step", pos)
	fc.checkAutoFrame(h, ord, fc.loopMods[h], "step", pos)
	if ms := fc.loopMeasure[h]; len(ms) > 0 {
		env := fc.envAt(tr.cur)
		fc.bindLoopVars(env, h, ord, func(p *ssa.Phi) *Val { return vals[p] })
		for i, cl := range fc.contractClauses("decreases", ord) {
			m := env.eval(cl.E)
			tr.oblige("dec", fmt.Sprintf("dec/%s/loop%d/decreases", fnKey(fc.fn), ord), "(< "+m.E()+" "+ms[i]+")", pos, cl.Props, cl.Src)
		}
	}
	tr.reach = saveReach
}

// modifiedIn computes which heap components may be written by the blocks of a loop.
func (fc *fctx) modifiedIn(body map[*ssa.BasicBlock]bool) ([]string, bool) {
	tr := fc.tr
	mods := map[string]bool{}
	all := false
	var scanFn func(fn *ssa.Function, blocks map[*ssa.BasicBlock]bool, depth int)
	addLeaves := func(t types.Type) {
		for _, l := range tr.u.leaves(t) {
			mods[l.comp] = true
		}
	}
	scanFn = func(fn *ssa.Function, blocks map[*ssa.BasicBlock]bool, depth int) {
		for _, b := range fn.Blocks {
			if blocks != nil && !blocks[b] {
				continue
			}
			for _, ins := range b.Instrs {
				switch x := ins.(type) {
				case *ssa.Store:
					for _, l := range tr.u.leavesTag(x.Val.Type(), fc.addrTag(x.Addr)) {
						mods[l.comp] = true
					}
				case *ssa.MapUpdate:
					mt := x.Map.Type().Underlying().(*types.Map)
					md, mv, _, _ := tr.u.mapComps(mt)
					mods[md], mods[mv], mods[tr.u.mapLen(mt)] = true, true, true
				case *ssa.Alloc:
					mods["ALLOC"] = true
					et := x.Type().Underlying().(*types.Pointer).Elem()
					if at, ok := et.Underlying().(*types.Array); ok {
						for _, l := range tr.u.leavesTag(at.Elem(), "elem") {
							mods[l.comp] = true
						}
					} else {
						addLeaves(et)
					}
				case *ssa.MakeSlice, *ssa.MakeMap, *ssa.MakeClosure:
					mods["ALLOC"] = true
					if mm, ok := x.(*ssa.MakeMap); ok {
						mt := mm.Type().Underlying().(*types.Map)
						md, mv, _, _ := tr.u.mapComps(mt)
						mods[md], mods[mv], mods[tr.u.mapLen(mt)] = true, true, true
					}
				case *ssa.Range:
					if _, ok := x.X.Type().Underlying().(*types.Map); ok {
						mods[fc.prefix+"IT_"+x.Name()] = true
					}
				case *ssa.Next:
					if ri := fc.ranges[x.Iter]; ri != nil && ri.isMap {
						mods[ri.key] = true
					} else if r, ok := x.Iter.(*ssa.Range); ok {
						if _, ok := r.X.Type().Underlying().(*types.Map); ok {
							mods[fc.prefix+"IT_"+r.Name()] = true
						}
					}
				case ssa.CallInstruction:
					cm, call := tr.callMods(x.Common(), depth)
					if call {
						all = true
					}
					for _, c := range cm {
						mods[c] = true
					}
					if _, ok := x.(*ssa.Defer); ok {
						// deferred call runs at function exit; treated there
					}
				case *ssa.Convert:
					// string -> []byte allocates
					if _, ok := x.Type().Underlying().(*types.Slice); ok {
						mods["ALLOC"], mods["MInt$elem"] = true, true
					}
				}
			}
		}
	}
	tr.scanFn = scanFn
	scanFn(fc.fn, body, 0)
	var out []string
	for c := range mods {
		if _, ok := tr.u.compSort[c]; !ok {
			continue
		}
		out = append(out, c)
	}
	sort.Strings(out)
	return out, all
}

// callMods: which components may a call modify; second result = everything.
func (tr *Translator) callMods(cc *ssa.CallCommon, depth int) ([]string, bool) {
	if b, ok := cc.Value.(*ssa.Builtin); ok {
		switch b.Name() {
		case "append":
			var out []string
			if st, ok := cc.Args[0].Type().Underlying().(*types.Slice); ok {
				for _, l := range tr.u.leavesTag(st.Elem(), "elem") {
					out = append(out, l.comp)
				}
			}
			return append(out, "ALLOC"), false
		case "copy":
			var out []string
			if st, ok := cc.Args[0].Type().Underlying().(*types.Slice); ok {
				for _, l := range tr.u.leavesTag(st.Elem(), "elem") {
					out = append(out, l.comp)
				}
			}
			return out, false
		case "delete":
			mt := cc.Args[0].Type().Underlying().(*types.Map)
			md, mv, _, _ := tr.u.mapComps(mt)
			return []string{md, mv, tr.u.mapLen(mt)}, false
		}
		return nil, false
	}
	if cc.IsInvoke() {
		key := ifaceKey(cc)
		if c, ok := tr.contracts.Ifaces[key]; ok {
			return tr.contractMods(c, nil)
		}
		return nil, true
	}
	callee := cc.StaticCallee()
	if callee == nil {
		if mc, ok := cc.Value.(*ssa.MakeClosure); ok {
			callee = mc.Fn.(*ssa.Function)
		} else {
			// dynamic call: ghost counters only
			return []string{"GCnt", "GLast"}, false
		}
	}
	key := fnKey(callee)
	if c, ok := tr.contracts.Funcs[key]; ok && (len(tr.stack) == 0 || true) {
		if callee.Pkg == tr.spkg || callee.Pkg == nil {
			return tr.contractMods(c, callee)
		}
	}
	if callee.Pkg != tr.spkg && callee.Pkg != nil {
		if e := lookupExternal(callee); e != nil {
			return e.mods, e.modAll
		}
		if c, ok := tr.contracts.Exts[extKey(callee)]; ok {
			return tr.contractMods(c, nil)
		}
		return nil, true
	}
	if depth > 3 || len(callee.Blocks) == 0 {
		return nil, true
	}
	// inlined callee: scan its body
	mods := map[string]bool{}
	all := false
	for _, b := range callee.Blocks {
		for _, ins := range b.Instrs {
			switch x := ins.(type) {
			case *ssa.Store:
				tmp := &fctx{tr: tr}
				for _, l := range tr.u.leavesTag(x.Val.Type(), tmp.addrTag(x.Addr)) {
					mods[l.comp] = true
				}
			case *ssa.MapUpdate:
				mt := x.Map.Type().Underlying().(*types.Map)
				md, mv, _, _ := tr.u.mapComps(mt)
				mods[md], mods[mv], mods[tr.u.mapLen(mt)] = true, true, true
			case *ssa.Alloc:
				mods["ALLOC"] = true
				et := x.Type().Underlying().(*types.Pointer).Elem()
				if at, ok := et.Underlying().(*types.Array); ok {
					for _, l := range tr.u.leavesTag(at.Elem(), "elem") {
						mods[l.comp] = true
					}
				} else {
					for _, l := range tr.u.leaves(et) {
						mods[l.comp] = true
					}
				}
			case *ssa.MakeSlice, *ssa.MakeMap, *ssa.MakeClosure:
				mods["ALLOC"] = true
				if mm, ok := x.(*ssa.MakeMap); ok {
					mt := mm.Type().Underlying().(*types.Map)
					md, mv, _, _ := tr.u.mapComps(mt)
					mods[md], mods[mv], mods[tr.u.mapLen(mt)] = true, true, true
				}
			case *ssa.Range, *ssa.Next:
				all = true // loops inside inlined callees are not supported anyway
			case ssa.CallInstruction:
				cm, a := tr.callMods(x.Common(), depth+1)
				if a {
					all = true
				}
				for _, c := range cm {
					mods[c] = true
				}
			case *ssa.Convert:
				if _, ok := x.Type().Underlying().(*types.Slice); ok {
					mods["ALLOC"], mods["MInt$elem"] = true, true
				}
			}
		}
	}
	var out []string
	for c := range mods {
		out = append(out, c)
	}
	sort.Strings(out)
	return out, all
}

func ifaceKey(cc *ssa.CallCommon) string {
	t := cc.Value.Type()
	name := types.TypeString(t, func(p *types.Package) string {
		if p.Path() == pkgPath {
			return ""
		}
		return p.Path()
	})
	return name + "." + cc.Method.Name()
}

func extKey(fn *ssa.Function) string {
	return fn.String()
}

// ---------------------------------------------------------------------------
// automatic frame invariant of loops: everything that was allocated at function entry and is not in
// the function's assigns clause still has its entry value.

func (fc *fctx) frameByComp() (map[string][]assignItem, bool) {
	if !fc.frameKnown {
		fc.frameKnown = true
		fc.frameUnspec = true
		if fc.top && fc.contract != nil {
			items, unspec := fc.tr.assignItems(fc.envAt(fc.entrySt), fc.contract)
			fc.frameUnspec = unspec
			fc.frameItems = map[string][]assignItem{}
			for _, it := range items {
				fc.frameItems[it.comp] = append(fc.frameItems[it.comp], it)
			}
		}
	}
	return fc.frameItems, fc.frameUnspec
}

// frameBody returns the frame condition of component cn at address term a (or whole-component equality
// for ghost components); ok=false when the component may be written freely.
func (fc *fctx) frameBody(cn, now, a string) (string, bool) {
	by, unspec := fc.frameByComp()
	if unspec || cn == "ALLOC" || strings.Contains(cn, "IT_") {
		return "", false
	}
	var preds []string
	its := by[cn]
	if strings.Contains(cn, "$") && !machineryPartition(cn) {
		its = append(append([]assignItem{}, its...), by["*"]...)
	}
	for _, it := range its {
		if it.all {
			return "", false
		}
		preds = append(preds, it.pred(a))
	}
	if cn == "GCnt" || cn == "GLast" || strings.HasPrefix(cn, "GV_") {
		return eq(now, cn+"_0"), true
	}
	return implies(and("(< (obase "+a+") ALLOC_0)", not(or(preds...))), eq("(select "+now+" "+a+")", "(select "+cn+"_0 "+a+")")), true
}

func (fc *fctx) checkAutoFrame(b *ssa.BasicBlock, ord int, mods []string, stage string, pos token.Pos) {
	tr := fc.tr
	if !fc.top || fc.contract == nil {
		return
	}
	for _, cn := range mods {
		now := tr.cur.get(tr.u, cn)
		if now == cn+"_0" {
			continue
		}
		sk := tr.u.fresh("sk_a")
		g, ok := fc.frameBody(cn, now, sk)
		if !ok {
			continue
		}
		o := tr.oblige("inv", fmt.Sprintf("inv/%s/loop%d/frame-%s/%s", fnKey(fc.fn), ord, cn, stage), g, pos, clauseProps(fc.contract.Assigns, tr.topProps), "loop frame: assigns "+fc.contract.Assigns.Src)
		o.Extra = []string{fmt.Sprintf("(declare-const %s Int)", sk)}
	}
}

func (fc *fctx) assumeAutoFrame(mods []string) {
	tr := fc.tr
	if !fc.top || fc.contract == nil {
		return
	}
	for _, cn := range mods {
		now := tr.cur.get(tr.u, cn)
		g, ok := fc.frameBody(cn, now, "a")
		if !ok {
			continue
		}
		if cn == "GCnt" || cn == "GLast" || strings.HasPrefix(cn, "GV_") {
			tr.assume(g)
			continue
		}
		tr.assume(fmt.Sprintf("(forall ((a Int)) (! %s :pattern ((select %s a))))", g, now))
	}
}

// bumpEpochRegion starts a new epoch after a call that may write anything inside the objects designated
// by the given pointers: partitions first used afterwards equal their previous-epoch value outside those objects.
func (tr *Translator) bumpEpochRegion(regions []string) {
	prev := tr.cur.Epoch
	tr.epoch++
	tr.cur.Epoch = tr.epoch
	tr.u.epochs[tr.epoch] = epochRel{parent: prev, regions: regions, allocPre: tr.cur.get(tr.u, "ALLOC")}
	tr.pendingEpochAlloc = tr.epoch
}

type paramHolder struct {
	addr string
	t    types.Type
}
