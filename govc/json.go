package main

// Type-directed model of encoding/json, swag.ConcatJSON and jsonpointer.GetForToken (assumed semantics
// of the dependencies, instantiated from the struct tags read through go/types on every run).
//
// JSON values are an uninterpreted sort JV.  An object value J has members: oCnt(J,k) is the number of
// members named k (texts produced by ConcatJSON may repeat a name), oVal(J,k) the value of the (last) one.
// jv(b) is the JSON value a byte slice denotes.  For every Go type T that occurs as a member type:
//   enc_T : T -> JV        what json.Marshal produces for a value of that type
//   dec_T : JV -> T        what json.Unmarshal stores for a value that decodes
//   decOK_T : JV -> Bool   whether it decodes without error
// Struct types without custom codecs are not opaque: their object view is spelled out field by field.

import (
	"encoding/json"
	"fmt"
	"go/ast"
	"strconv"
	"os"
	"go/token"
	"go/types"
	"reflect"
	"strings"

	"golang.org/x/tools/go/ssa"
)

type jsonField struct {
	name      string
	omitempty bool
	path      []int
	depth     int
	tagged    bool
	typ       types.Type
}

func jsonFields(st *types.Struct) []jsonField {
	var all []jsonField
	var rec func(st *types.Struct, path []int, depth int)
	rec = func(st *types.Struct, path []int, depth int) {
		for i := 0; i < st.NumFields(); i++ {
			f := st.Field(i)
			tag := reflect.StructTag(st.Tag(i)).Get("json")
			if tag == "-" {
				continue
			}
			name, opts, _ := strings.Cut(tag, ",")
			p := append(append([]int{}, path...), i)
			if f.Embedded() && name == "" {
				ft := f.Type()
				_, isPtr := ft.Underlying().(*types.Pointer)
				if isPtr {
					ft = ft.Underlying().(*types.Pointer).Elem()
				}
				if est, ok := ft.Underlying().(*types.Struct); ok {
					if isPtr {
						p = append(p, derefStep) // the promoted fields live behind the pointer (absent when it is nil)
					}
					rec(est, p, depth+1)
					continue
				}
			}
			if !f.Exported() {
				continue
			}
			tagged := name != ""
			if name == "" {
				name = f.Name()
			}
			all = append(all, jsonField{name: name, omitempty: strings.Contains(","+opts+",", ",omitempty,"), path: p, typ: f.Type(), depth: depth, tagged: tagged})
		}
	}
	rec(st, nil, 0)
	// Go's rule for equal names: the shallowest field wins; among several at that depth a single tagged one wins,
	// otherwise the name is dropped altogether
	var out []jsonField
	done := map[string]bool{}
	for _, f := range all {
		if done[f.name] {
			continue
		}
		done[f.name] = true
		var same []jsonField
		min := 1 << 30
		for _, g := range all {
			if g.name == f.name {
				same = append(same, g)
				if g.depth < min {
					min = g.depth
				}
			}
		}
		var top, topTagged []jsonField
		for _, g := range same {
			if g.depth == min {
				top = append(top, g)
				if g.tagged {
					topTagged = append(topTagged, g)
				}
			}
		}
		switch {
		case len(top) == 1:
			out = append(out, top[0])
		case len(topTagged) == 1:
			out = append(out, topTagged[0])
		}
	}
	return out
}

// derefStep in a jsonField path: load the struct the embedded pointer designates
const derefStep = -1

func (tr *Translator) jsonDecls() {
	u := tr.u
	u.decl("JV", "(declare-sort JV 0)")
	u.decl("specfn:jNull", "(declare-fun jNull () JV)")
	u.decl("specfn:jv", "(declare-fun jv (Slice) JV)")
	u.decl("specfn:oCnt", "(declare-fun oCnt (JV String) Int)")
	u.decl("specfn:oVal", "(declare-fun oVal (JV String) JV)")
	u.decl("specfn:isObj", "(declare-fun isObj (JV) Bool)")
	// the text behind a JSON value: well-formed texts without leading white space (what encoding/json produces, and what
	// it hands to an UnmarshalJSON method) start with the character of their kind
	u.decl("specfn:jbyte0", "(declare-fun jbyte0 (Slice) Int)")
	u.decl("specfn:jWF", "(declare-fun jWF (Slice) Bool)")
	u.decl("specfn:jIsStr", "(declare-fun jIsStr (JV) Bool)")
	u.decl("specfn:jIsArr", "(declare-fun jIsArr (JV) Bool)")
	u.decl("specfn:jTrue", "(declare-fun jTrue () JV)")
	u.decl("specfn:jFalse", "(declare-fun jFalse () JV)")
	u.decl("jkinds", `(assert (forall ((b Slice)) (! (=> (jWF b) (and (>= (sl_len b) 1) (not (= (sl_arr b) 0))
		(= (= (jbyte0 b) 123) (isObj (jv b))) (= (= (jbyte0 b) 91) (jIsArr (jv b))) (= (= (jbyte0 b) 34) (jIsStr (jv b)))
		(=> (or (isObj (jv b)) (jIsArr (jv b)) (jIsStr (jv b))) (>= (sl_len b) 2))
		(=> (= (jv b) jNull) (= (jbyte0 b) 110)) (=> (= (jv b) jTrue) (= (jbyte0 b) 116)) (=> (= (jv b) jFalse) (= (jbyte0 b) 102))))
		:pattern ((jWF b)))))`)
	u.decl("jkinds_disjoint", `(assert (and (not (isObj jNull)) (not (jIsArr jNull)) (not (jIsStr jNull)) (not (isObj jTrue)) (not (jIsArr jTrue)) (not (jIsStr jTrue))
		(not (isObj jFalse)) (not (jIsArr jFalse)) (not (jIsStr jFalse)) (distinct jNull jTrue jFalse)
		(forall ((v JV)) (! (and (=> (isObj v) (and (not (jIsArr v)) (not (jIsStr v)))) (=> (jIsArr v) (not (jIsStr v)))) :pattern ((isObj v)) :pattern ((jIsArr v)) :pattern ((jIsStr v))))))`)
	u.decl("oCnt_nonneg", "(assert (forall ((j JV) (k String)) (! (>= (oCnt j k) 0) :pattern ((oCnt j k)))))")
	tr.trusted["encoding/json, swag.ConcatJSON, jsonpointer.GetForToken: tag-directed model (struct fields by JSON name, omitempty, embedded promotion, custom codecs called; member names matched exactly, not case-insensitively; a present member overwrites the target member - encoding/json merges into non-empty composite members (existing slice elements, non-nil pointers, maps), which the model does not follow: see the known finding on path items with $ref and siblings)"] = true
}

func typeKey(t types.Type) string {
	return sanitize(types.TypeString(t, func(p *types.Package) string {
		if p.Path() == pkgPath {
			return ""
		}
		return p.Name()
	}))
}

func (tr *Translator) encFn(t types.Type) string {
	u := tr.u
	tr.jsonDecls()
	n := "enc_" + typeKey(t)
	u.decl(n, fmt.Sprintf("(declare-fun %s (%s) JV)", n, u.sortOf(t)))
	if it, isIface := t.Underlying().(*types.Interface); isIface && it.NumMethods() == 0 && !u.declSet["dec_iface_str"] {
		tr.decFn(t)
	}
	return n
}

// encTextFn: the text json.Marshal produces for a value of type t (a function of the value)
func (tr *Translator) encTextFn(t types.Type) string {
	u := tr.u
	n := "encText_" + typeKey(t)
	u.decl(n, fmt.Sprintf("(declare-fun %s (%s) String)", n, u.sortOf(t)))
	return n
}

func (tr *Translator) decFn(t types.Type) (dec, ok string) {
	u := tr.u
	tr.jsonDecls()
	dec = "dec_" + typeKey(t)
	ok = "decOK_" + typeKey(t)
	u.decl(dec, fmt.Sprintf("(declare-fun %s (JV) %s)", dec, u.sortOf(t)))
	u.decl(ok, fmt.Sprintf("(declare-fun %s (JV) Bool)", ok))
	if n, isNamed := t.(*types.Named); isNamed && n.Obj().Pkg() != nil && n.Obj().Pkg().Path() == "encoding/json" && n.Obj().Name() == "RawMessage" {
		// json.RawMessage keeps the raw bytes of the value: decoding never fails and the bytes denote the value
		u.decl("dec_rawmessage", fmt.Sprintf("(assert (forall ((v JV)) (! (and (%s v) (= (jv (%s v)) v) (not (= (sl_arr (%s v)) 0)) (jWF (%s v))) :pattern ((%s v)))))", ok, dec, dec, dec, dec))
	}
	if it, isIface := t.Underlying().(*types.Interface); isIface && it.NumMethods() == 0 && !u.declSet["dec_iface_str"] {
		// decoding into interface{}: a JSON string becomes a Go string (and nothing else does)
		strT := types.Typ[types.String]
		sdec, _ := tr.decFn(strT)
		senc := tr.encFn(strT)
		u.ensureBox("String")
		sid := u.typeID(strT)
		u.decl("specfn:jIsStr", "(declare-fun jIsStr (JV) Bool)")
		u.decl("dec_iface_str", fmt.Sprintf("(assert (forall ((v JV)) (! (and (= (= (if_t (%s v)) %d) (jIsStr v)) (=> (jIsStr v) (= (unbox_String (if_v (%s v))) (%s v)))) :pattern ((%s v)))))", dec, sid, dec, sdec, dec))
		u.decl("dec_iface_null", fmt.Sprintf("(assert (= (if_t (%s jNull)) 0))", dec))
		u.decl("enc_str_isstr", fmt.Sprintf("(assert (forall ((s String)) (! (and (jIsStr (%s s)) (= (%s (%s s)) s) (not (= (%s s) jNull))) :pattern ((%s s)))))", senc, sdec, senc, senc, senc))
		// encoding an interface{} holding a string is encoding the string
		ienc := "enc_" + typeKey(t)
		u.decl(ienc, fmt.Sprintf("(declare-fun %s (%s) JV)", ienc, u.sortOf(t)))
		u.decl("enc_iface_str", fmt.Sprintf("(assert (forall ((x Iface)) (! (=> (= (if_t x) %d) (= (%s x) (%s (unbox_String (if_v x))))) :pattern ((%s x)))))", sid, ienc, senc, ienc))
	}
	return
}

// emptyOf: the omitempty test of encoding/json
func (tr *Translator) emptyOf(v *Val, t types.Type) string { return tr.emptyOfState(tr.cur, v, t) }

func (tr *Translator) emptyOfState(st *State, v *Val, t types.Type) string {
	u := tr.u
	switch tt := t.Underlying().(type) {
	case *types.Basic:
		switch {
		case tt.Info()&types.IsBoolean != 0:
			return not(v.E())
		case tt.Info()&types.IsString != 0:
			return eq(v.E(), "\"\"")
		case tt.Info()&types.IsFloat != 0:
			return eq(v.E(), "0.0")
		default:
			return eq(v.E(), "0")
		}
	case *types.Pointer:
		return eq(v.E(), "0")
	case *types.Interface:
		return eq(ifPart(v, 0), "0")
	case *types.Slice:
		return eq(slPart(v, 2), "0")
	case *types.Map:
		return or(eq(v.E(), "0"), eq("(select "+st.get(u, u.mapLen(tt))+" "+v.E()+")", "0"))
	}
	return "false"
}

// methodOf finds an in-package method (value or pointer receiver) of type t.
func (tr *Translator) methodOf(t types.Type, name string) *ssa.Function {
	for _, tt := range []types.Type{t, types.NewPointer(t)} {
		if _, isPtr := t.Underlying().(*types.Pointer); isPtr && tt != t {
			continue
		}
		ms := tr.prog.MethodSets.MethodSet(tt)
		for i := 0; i < ms.Len(); i++ {
			sel := ms.At(i)
			if sel.Obj().Name() == name {
				fn := tr.prog.MethodValue(sel)
				if fn != nil {
					return fn
				}
			}
		}
	}
	return nil
}

// staticArgType: the static type of an interface{} argument (before boxing)
func staticArgType(v ssa.Value) (ssa.Value, types.Type) {
	switch x := v.(type) {
	case *ssa.MakeInterface:
		return x.X, x.X.Type()
	case *ssa.ChangeInterface:
		return staticArgType(x.X)
	}
	return nil, nil
}

// jsonMarshal models json.Marshal(v).
func (fc *fctx) jsonMarshal(cc *ssa.CallCommon, pos token.Pos) []*Val {
	tr := fc.tr
	u := tr.u
	tr.jsonDecls()
	inner, t := staticArgType(cc.Args[0])
	errT := cc.Signature().Results().At(1).Type()
	bytesT := cc.Signature().Results().At(0).Type()
	if inner == nil {
		tr.warn("%s: json.Marshal of a value of unknown static type", fnKey(fc.fn))
		tr.havocAll()
		return fc.freshResults(cc.Signature().Results(), "jm")
	}
	v := fc.val(inner)
	// custom encoder of this package: encoding/json calls it
	base := t
	viaPtr := false
	if pt, ok := t.Underlying().(*types.Pointer); ok {
		base = pt.Elem()
		viaPtr = true
	}
	if m := tr.methodOf(base, "MarshalJSON"); m != nil && m.Pkg == tr.spkg || (m != nil && m.Pkg == nil && strings.Contains(m.String(), pkgPath)) {
		recv := m.Signature.Recv().Type()
		_, recvPtr := recv.Underlying().(*types.Pointer)
		var arg *Val
		switch {
		case recvPtr && viaPtr:
			arg = v
		case !recvPtr && !viaPtr:
			arg = v
		case !recvPtr && viaPtr:
			// nil pointer encodes as null without calling the method
			arg = tr.loadTag(tr.cur, v.E(), base, "cell")
		default:
			// pointer receiver, value argument: not addressable, the method is not used by encoding/json
			arg = nil
		}
		if arg != nil && !tr.opaqueCodec(m) {
			return fc.callFunction(m, []*Val{arg}, pos)
		}
		// a nested kind with its own codec and no contract: opaque enc_T (the kind's own round-trip lemma is about it)
	}
	b := fc.freshVal("jm_b", bytesT)
	errv := fc.freshVal("jm_err", errT)
	okName := "encOK_" + typeKey(t)
	u.decl(okName, fmt.Sprintf("(declare-fun %s (%s) Bool)", okName, u.sortOf(t)))
	okc := "(" + okName + " " + v.E() + ")"
	tr.assume(eq(eq(ifPart(errv, 0), "0"), okc))
	J := "(jv " + b.E() + ")"
	a := tr.alloc()
	tr.assume(implies(okc, and(eq(slPart(b, 0), a), eq(slPart(b, 1), "0"), "(> "+slPart(b, 2)+" 0)", "(>= "+slPart(b, 3)+" "+slPart(b, 2)+")", "(jWF "+b.E()+")")))
	tr.assume(implies(not(okc), eq(slPart(b, 0), "0")))
	// the text produced is a function of the value encoded (encoding/json is deterministic: map keys are sorted)
	u.decl("specfn:textOf", "(declare-fun textOf (Slice) String)")
	if viaPtr {
		lvT := tr.loadTag(tr.cur, v.E(), base, "cell")
		tr.assume(implies(and(okc, not(eq(v.E(), "0"))), eq("(textOf "+b.E()+")", "("+tr.encTextFn(base)+" "+lvT.E()+")")))
	} else {
		tr.assume(implies(okc, eq("(textOf "+b.E()+")", "("+tr.encTextFn(t)+" "+v.E()+")")))
	}
	var sv *Val // struct value to encode field by field
	var st *types.Struct
	opaque := false
	if m := tr.methodOf(base, "MarshalJSON"); m != nil && tr.opaqueCodec(m) {
		opaque = true
	}
	if s, _ := structOf(base); s != nil && !opaque {
		st = s
		if viaPtr {
			sv = tr.loadTag(tr.cur, v.E(), base, "cell")
		} else {
			sv = v
		}
	}
	switch {
	case st != nil:
		fields := jsonFields(st)
		var cnt []string
		valExpr := "jNull"
		for _, f := range fields {
			fv := sv
			incl := "true"
			for _, i := range f.path {
				if i == derefStep {
					// promoted through an embedded pointer: absent when the pointer is nil
					pt := fv.T.Underlying().(*types.Pointer)
					incl = and(incl, not(eq(fv.E(), "0")))
					fv = tr.loadTag(tr.cur, fv.E(), pt.Elem(), "cell")
					continue
				}
				fv = u.fieldOf(fv, i)
			}
			if f.omitempty {
				incl = and(incl, not(tr.emptyOf(fv, f.typ)))
			}
			isK := eq("k", smtString(f.name))
			cnt = append(cnt, ite(and(isK, incl), "1", "0"))
			valExpr = ite(isK, "("+tr.encFn(f.typ)+" "+fv.E()+")", valExpr)
		}
		sum := "0"
		if len(cnt) > 0 {
			sum = "(+ 0 " + strings.Join(cnt, " ") + ")"
		}
		tr.assume(implies(okc, and("(isObj "+J+")",
			fmt.Sprintf("(forall ((k String)) (! (= (oCnt %s k) %s) :pattern ((oCnt %s k))))", J, sum, J),
			fmt.Sprintf("(forall ((k String)) (! (=> (> (oCnt %s k) 0) (= (oVal %s k) %s)) :pattern ((oVal %s k))))", J, J, valExpr, J))))
	default:
		if mt, ok := t.Underlying().(*types.Map); ok && u.sortOf(mt.Key()) == "String" {
			md, mv, _, _ := u.mapComps(mt)
			dom := "(select " + tr.cur.get(u, md) + " " + v.E() + ")"
			vals := "(select " + tr.cur.get(u, mv) + " " + v.E() + ")"
			tr.assume(implies(okc, and("(isObj "+J+")",
				fmt.Sprintf("(forall ((k String)) (! (= (oCnt %s k) (ite (select %s k) 1 0)) :pattern ((oCnt %s k))))", J, dom, J),
				fmt.Sprintf("(forall ((k String)) (! (=> (select %s k) (= (oVal %s k) (%s (select %s k)))) :pattern ((oVal %s k))))", dom, J, tr.encFn(mt.Elem()), vals, J))))
		} else if viaPtr && opaque {
			// a pointer to a kind with its own encoder: null for nil, otherwise the encoding of what it designates
			lv := tr.loadTag(tr.cur, v.E(), base, "cell")
			tr.assume(implies(okc, eq(J, ite(eq(v.E(), "0"), "jNull", "("+tr.encFn(base)+" "+lv.E()+")"))))
			bok := "encOK_" + typeKey(base)
			u.decl(bok, fmt.Sprintf("(declare-fun %s (%s) Bool)", bok, u.sortOf(base)))
			tr.assume(eq(okc, or(eq(v.E(), "0"), "("+bok+" "+lv.E()+")")))
		} else {
			tr.assume(implies(okc, eq(J, "("+tr.encFn(t)+" "+v.E()+")")))
		}
	}
	return []*Val{b, errv}
}

// callFunction calls an in-package function the way an ordinary call instruction would.
func (fc *fctx) callFunction(callee *ssa.Function, args []*Val, pos token.Pos) []*Val {
	tr := fc.tr
	key := fnKey(callee)
	if c, ok := tr.contracts.Funcs[key]; ok && !tr.inlineAnyway[key] {
		return fc.callContractFn(c, callee, args, pos)
	}
	for _, f := range tr.stack {
		if f == callee {
			unsup("recursive function %s needs a contract", key)
		}
	}
	if len(tr.stack) > 5 || len(callee.Blocks) == 0 {
		unsup("cannot inline %s", key)
	}
	return fc.inline(callee, args, nil, pos)
}

// jsonUnmarshal models json.Unmarshal(data, v) for v = pointer to a struct / map / custom decoder.
func (fc *fctx) jsonUnmarshal(cc *ssa.CallCommon, pos token.Pos) []*Val {
	tr := fc.tr
	u := tr.u
	tr.jsonDecls()
	data := fc.val(cc.Args[0])
	inner, t := staticArgType(cc.Args[1])
	errT := cc.Signature().Results().At(0).Type()
	if inner == nil {
		return nil
	}
	pt, ok := t.Underlying().(*types.Pointer)
	if !ok {
		return nil
	}
	p := fc.val(inner)
	base := pt.Elem()
	J := "(jv " + data.E() + ")"
	if _, isIface := base.Underlying().(*types.Interface); isIface {
		return nil // handled by the contract in the contract file
	}
	// custom decoder of this package
	if m := tr.methodOf(base, "UnmarshalJSON"); m != nil && (m.Pkg == tr.spkg || strings.Contains(m.String(), pkgPath)) {
		if _, recvPtr := m.Signature.Recv().Type().Underlying().(*types.Pointer); recvPtr && !tr.opaqueCodec(m) {
			tr.obligeAssume("safe", "safe/"+fnKey(fc.fn)+"/nil/json.Unmarshal-target", not(eq(p.E(), "0")), pos)
			return fc.callFunction(m, []*Val{p, data}, pos)
		}
		// a nested kind with its own decoder and no contract: opaque dec_T below
	}
	errv := fc.freshVal("ju_err", errT)
	tr.obligeAssume("safe", "safe/"+fnKey(fc.fn)+"/nil/json.Unmarshal-target", not(eq(p.E(), "0")), pos)
	opaque := false
	if m := tr.methodOf(base, "UnmarshalJSON"); m != nil && tr.opaqueCodec(m) {
		opaque = true
	}
	if st, _ := structOf(base); st != nil && !opaque {
		fields := jsonFields(st)
		oks := []string{"(isObj " + J + ")"}
		type upd struct {
			addr string
			f    jsonField
			tag  string
			newV string
		}
		var upds []upd
		for _, f := range fields {
			dec, dok := tr.decFn(f.typ)
			present := and("(> (oCnt "+J+" "+smtString(f.name)+") 0)", not(eq("(oVal "+J+" "+smtString(f.name)+")", "jNull")))
			oks = append(oks, implies(present, "("+dok+" (oVal "+J+" "+smtString(f.name)+"))"))
			// address and partition of the field
			addr := p.E()
			cur := base
			tag := "cell"
			for _, i := range f.path {
				if i == derefStep {
					unsup("json.Unmarshal into a struct with an embedded pointer")
				}
				s, _ := structOf(cur)
				sname := u.sortOf(cur)
				tag = sname[2:] + "_" + sanitize(s.Field(i).Name())
				addr = u.fa(addr, cur, i)
				cur = s.Field(i).Type()
			}
			old := tr.loadTag(tr.cur, addr, f.typ, tag)
			keep := old.E()
			switch f.typ.Underlying().(type) {
			case *types.Pointer, *types.Map, *types.Slice, *types.Interface:
				// a JSON null sets a pointer, map, slice or interface member to nil (for other kinds it is a no-op)
				presentNull := and("(> (oCnt "+J+" "+smtString(f.name)+") 0)", eq("(oVal "+J+" "+smtString(f.name)+")", "jNull"))
				keep = ite(presentNull, u.zero(f.typ).E(), old.E())
			}
			nv := ite(present, "("+dec+" (oVal "+J+" "+smtString(f.name)+"))", keep)
			upds = append(upds, upd{addr, f, tag, nv})
		}
		okc := tr.define(fc.prefix+"ju_ok", "Bool", and(oks...))
		tr.assume(eq(eq(ifPart(errv, 0), "0"), okc))
		for _, up := range upds {
			// on failure the target is left in an unspecified (partially decoded) state
			junk := fc.freshVal("ju_junk", up.f.typ)
			nv := mkVal(ite(okc, up.newV, junk.E()), u.sortOf(up.f.typ), up.f.typ)
			tr.storeTag(up.addr, up.f.typ, fc.name("ju", nv), up.tag)
		}
		// decoded pointers / slices / maps are fresh objects
		allocBefore := tr.cur.get(u, "ALLOC")
		tr.bumpAllocUnknown()
		allocAfter := tr.cur.get(u, "ALLOC")
		u.decl("specfn:jEmptyObj", "(declare-fun jEmptyObj (JV) Bool)")
		for _, up := range upds {
			present := and("(> (oCnt "+J+" "+smtString(up.f.name)+") 0)", not(eq("(oVal "+J+" "+smtString(up.f.name)+")", "jNull")))
			dec, _ := tr.decFn(up.f.typ)
			dv := "(" + dec + " (oVal " + J + " " + smtString(up.f.name) + "))"
			switch ft := up.f.typ.Underlying().(type) {
			case *types.Map:
				tr.assume(implies(and(okc, present), and("(>= "+dv+" "+allocBefore+")", "(< "+dv+" "+allocAfter+")", eq("(obase "+dv+")", dv),
					eq(eq("(select "+tr.cur.get(u, u.mapLen(ft))+" "+dv+")", "0"), "(jEmptyObj (oVal "+J+" "+smtString(up.f.name)+"))"))))
			case *types.Pointer:
				tr.assume(implies(and(okc, present), and("(>= "+dv+" "+allocBefore+")", "(< "+dv+" "+allocAfter+")", eq("(obase "+dv+")", dv))))
			}
		}
		return []*Val{errv}
	}
	if mt, ok := base.Underlying().(*types.Map); ok && u.sortOf(mt.Key()) == "String" {
		md, mv, ks, vs := u.mapComps(mt)
		dec, dok := tr.decFn(mt.Elem())
		m := tr.alloc()
		okc := tr.define(fc.prefix+"ju_ok", "Bool", and("(isObj "+J+")", fmt.Sprintf("(forall ((k String)) (! (=> (> (oCnt %s k) 0) (%s (oVal %s k))) :pattern ((oCnt %s k))))", J, dok, J, J)))
		tr.assume(eq(eq(ifPart(errv, 0), "0"), okc))
		domN := u.freshConst("jdom", "(Array "+ks+" Bool)")
		valN := u.freshConst("jval", "(Array "+ks+" "+vs+")")
		tr.assume(fmt.Sprintf("(forall ((k String)) (! (= (select %s k) (> (oCnt %s k) 0)) :pattern ((select %s k))))", domN, J, domN))
		tr.assume(fmt.Sprintf("(forall ((k String)) (! (=> (> (oCnt %s k) 0) (= (select %s k) (%s (oVal %s k)))) :pattern ((select %s k))))", J, valN, dec, J, valN))
		if n, isNamed := mt.Elem().(*types.Named); isNamed && n.Obj().Name() == "RawMessage" {
			// the raw text of a member of a well-formed text is a well-formed text
			tr.assume(fmt.Sprintf("(forall ((k String)) (! (=> (> (oCnt %s k) 0) (jWF (select %s k))) :pattern ((select %s k))))", J, valN, valN))
		}
		tr.setComp(md, fmt.Sprintf("(store %s %s %s)", tr.cur.get(u, md), m, domN))
		tr.setComp(mv, fmt.Sprintf("(store %s %s %s)", tr.cur.get(u, mv), m, valN))
		ln := u.freshConst("jlen", "Int")
		tr.assume("(>= " + ln + " 0)")
		tr.assume(fmt.Sprintf("(= (= %s 0) (forall ((k String)) (! (not (select %s k)) :pattern ((select %s k)))))", ln, domN, domN))
		tr.setComp(u.mapLen(mt), fmt.Sprintf("(store %s %s %s)", tr.cur.get(u, u.mapLen(mt)), m, ln))
		// json.Unmarshal into a nil map allocates; into a non-nil map it adds entries: the package only passes nil maps
		old := tr.loadTag(tr.cur, p.E(), base, fc.addrTag(inner))
		tr.obligeAssume("safe", "safe/"+fnKey(fc.fn)+"/json.Unmarshal-into-fresh-map", eq(old.E(), "0"), pos)
		tr.storeTag(p.E(), base, mkVal(ite(okc, m, "0"), "Int", base), fc.addrTag(inner))
		return []*Val{errv}
	}
	// other targets (slices, basic values): opaque decode of the whole value
	dec, dok := tr.decFn(base)
	okc := tr.define(fc.prefix+"ju_ok", "Bool", "("+dok+" "+J+")")
	tr.assume(eq(eq(ifPart(errv, 0), "0"), okc))
	old := tr.loadTag(tr.cur, p.E(), base, fc.addrTag(inner))
	tr.storeTag(p.E(), base, fc.name("ju", mkVal(ite(okc, "("+dec+" "+J+")", old.E()), u.sortOf(base), base)), fc.addrTag(inner))
	tr.bumpAllocUnknown()
	return []*Val{errv}
}

func (tr *Translator) bumpAllocUnknown() {
	old := tr.cur.get(tr.u, "ALLOC")
	n := tr.havocComp("ALLOC")
	tr.fact("(>= " + n + " " + old + ")")
}

// concatJSON models swag.ConcatJSON(blobs...): the members of all (non-nil) object blobs, in order.
func (fc *fctx) concatJSON(cc *ssa.CallCommon, pos token.Pos) []*Val {
	tr := fc.tr
	u := tr.u
	tr.jsonDecls()
	blobs := fc.val(cc.Args[0])
	n := slPart(blobs, 2)
	if !isNum(n) {
		// the variadic slice is built in place by the caller: its length is a literal
		if sl, ok := cc.Args[0].(*ssa.Slice); ok {
			if al, ok := sl.X.(*ssa.Alloc); ok {
				if at, ok := al.Type().Underlying().(*types.Pointer).Elem().Underlying().(*types.Array); ok {
					n = fmt.Sprint(at.Len())
				}
			}
		}
	}
	if !isNum(n) {
		return nil
	}
	var cnt int
	fmt.Sscan(n, &cnt)
	bt := cc.Signature().Results().At(0).Type()
	res := fc.freshVal("cj", bt)
	J := "(jv " + res.E() + ")"
	var sums []string
	valExpr := "jNull"
	var anyObj []string
	for i := 0; i < cnt; i++ {
		b := tr.loadTag(tr.cur, u.sla(blobs, fmt.Sprint(i)), bt, "elem")
		bn := fc.name(fmt.Sprintf("cj_b%d", i), b)
		nonEmpty := not(eq(slPart(bn, 0), "0"))
		Ji := "(jv " + bn.E() + ")"
		sums = append(sums, ite(and(nonEmpty, "(isObj "+Ji+")"), "(oCnt "+Ji+" k)", "0"))
		valExpr = ite(and(nonEmpty, "(isObj "+Ji+")", "(> (oCnt "+Ji+" k) 0)"), "(oVal "+Ji+" k)", valExpr)
		anyObj = append(anyObj, and(nonEmpty, "(isObj "+Ji+")"))
	}
	a := tr.alloc()
	tr.assume(implies(or(anyObj...), and("(isObj "+J+")", eq(slPart(res, 0), a), "(> "+slPart(res, 2)+" 0)")))
	tr.assume(fmt.Sprintf("(forall ((k String)) (! (= (oCnt %s k) (+ 0 %s)) :pattern ((oCnt %s k))))", J, strings.Join(sums, " "), J))
	tr.assume(fmt.Sprintf("(forall ((k String)) (! (=> (> (oCnt %s k) 0) (= (oVal %s k) %s)) :pattern ((oVal %s k))))", J, J, valExpr, J))
	tr.assume(and("(>= "+slPart(res, 2)+" 0)", "(>= "+slPart(res, 3)+" "+slPart(res, 2)+")", "(>= "+slPart(res, 1)+" 0)"))
	return []*Val{res}
}

// metaRequired reads the `required` list of a definition of the shipped Swagger 2.0 meta-schema.
func (tr *Translator) metaRequired(def string) map[string]bool {
	out := map[string]bool{}
	if def == "" {
		return out
	}
	if tr.metaSchema == nil {
		b, err := os.ReadFile(repoDir + "/schemas/v2/schema.json")
		if err != nil {
			evalFail("cannot read the shipped meta-schema: %v", err)
		}
		if err := json.Unmarshal(b, &tr.metaSchema); err != nil {
			evalFail("meta-schema: %v", err)
		}
	}
	var node interface{} = tr.metaSchema
	if def != "#" {
		defs, _ := tr.metaSchema["definitions"].(map[string]interface{})
		node = defs[def]
	}
	m, ok := node.(map[string]interface{})
	if !ok {
		evalFail("meta-schema has no definition %q", def)
	}
	if rs, ok := m["required"].([]interface{}); ok {
		for _, r := range rs {
			if s, ok := r.(string); ok {
				out[s] = true
			}
		}
	}
	return out
}

// jsonLiteralFacts: a byte slice made from a constant string that is a JSON text: its value is known.
func (tr *Translator) jsonLiteralFacts(b *Val, lit string) {
	u := tr.u
	var v interface{}
	if err := json.Unmarshal([]byte(lit), &v); err != nil {
		return
	}
	tr.jsonDecls()
	J := "(jv " + b.E() + ")"
	if lit == strings.TrimSpace(lit) && len(lit) > 0 {
		tr.assume(and("(jWF "+b.E()+")", eq("(jbyte0 "+b.E()+")", fmt.Sprint(int(lit[0])))))
	}
	switch x := v.(type) {
	case nil:
		tr.assume(eq(J, "jNull"))
	case map[string]interface{}:
		var cnt []string
		valExpr := "jNull"
		for k, mv := range x {
			isK := eq("k", smtString(k))
			cnt = append(cnt, ite(isK, "1", "0"))
			switch y := mv.(type) {
			case string:
				valExpr = ite(isK, "("+tr.encFn(types.Typ[types.String])+" "+smtString(y)+")", valExpr)
			case bool:
				valExpr = ite(isK, "("+tr.encFn(types.Typ[types.Bool])+" "+fmt.Sprint(y)+")", valExpr)
			case nil:
			default:
				f := u.freshConst("jlit", "JV")
				valExpr = ite(isK, f, valExpr)
			}
		}
		sum := "0"
		if len(cnt) > 0 {
			sum = "(+ 0 " + strings.Join(cnt, " ") + ")"
		}
		tr.assume(and("(isObj "+J+")",
			fmt.Sprintf("(forall ((k String)) (! (= (oCnt %s k) %s) :pattern ((oCnt %s k))))", J, sum, J),
			fmt.Sprintf("(forall ((k String)) (! (=> (> (oCnt %s k) 0) (= (oVal %s k) %s)) :pattern ((oVal %s k))))", J, J, valExpr, J)))
	case bool:
		tr.assume(eq(J, "("+tr.encFn(types.Typ[types.Bool])+" "+fmt.Sprint(x)+")"))
		if x {
			tr.assume(eq(J, "jTrue"))
		} else {
			tr.assume(eq(J, "jFalse"))
		}
		tr.assume(not("(isObj " + J + ")"))
	default:
		tr.assume(not("(isObj " + J + ")"))
	}
}

// opaqueCodec: the codec method belongs to a kind declared `opaque` in the contract file; behind json.Marshal /
// json.Unmarshal it is then the uninterpreted enc_T / dec_T its own lemma is about.
func (tr *Translator) opaqueCodec(m *ssa.Function) bool {
	t := m.Signature.Recv().Type()
	if p, ok := t.Underlying().(*types.Pointer); ok {
		t = p.Elem()
	}
	if n, ok := t.(*types.Named); ok {
		return tr.contracts.Opaque[n.Obj().Name()] && !tr.inlineAnyway[fnKey(m)]
	}
	return false
}

// constGlobalLiteral: a package-level `var x = []byte("lit")` that no function of the package writes or takes the
// address of (other than to read it): its value is the literal.
func (tr *Translator) constGlobalLiteral(g *ssa.Global) (string, bool) {
	if tr.globalLits == nil {
		tr.globalLits = map[*ssa.Global]*string{}
	}
	if p, ok := tr.globalLits[g]; ok {
		if p == nil {
			return "", false
		}
		return *p, true
	}
	tr.globalLits[g] = nil
	if g.Pkg != tr.spkg {
		return "", false
	}
	// every use outside the package initialiser must be a load
	for _, fn := range allFuncs {
		if fn.Name() == "init" || strings.HasPrefix(fn.Name(), "init#") {
			continue
		}
		for _, b := range fn.Blocks {
			for _, ins := range b.Instrs {
				for _, op := range ins.Operands(nil) {
					if *op == ssa.Value(g) {
						if u, ok := ins.(*ssa.UnOp); !ok || u.Op != token.MUL {
							return "", false
						}
					}
				}
			}
		}
	}
	// the initialiser in the source:  var name = []byte("lit")
	for _, f := range pkgSyntax {
		for _, d := range f.Decls {
			gd, ok := d.(*ast.GenDecl)
			if !ok || gd.Tok != token.VAR {
				continue
			}
			for _, sp := range gd.Specs {
				vs := sp.(*ast.ValueSpec)
				for i, n := range vs.Names {
					if n.Name != g.Name() || i >= len(vs.Values) {
						continue
					}
					call, ok := vs.Values[i].(*ast.CallExpr)
					if !ok || len(call.Args) != 1 {
						continue
					}
					at, ok := call.Fun.(*ast.ArrayType)
					if !ok || at.Len != nil {
						continue
					}
					if id, ok := at.Elt.(*ast.Ident); !ok || id.Name != "byte" {
						continue
					}
					bl, ok := call.Args[0].(*ast.BasicLit)
					if !ok || bl.Kind != token.STRING {
						continue
					}
					lit, err := strconv.Unquote(bl.Value)
					if err != nil {
						continue
					}
					tr.globalLits[g] = &lit
					return lit, true
				}
			}
		}
	}
	return "", false
}

var pkgSyntax []*ast.File

// getForToken models jsonpointer.GetForToken(doc, token) for a document that is a struct value without a JSONLookup
// method of its own: swag's name provider maps the JSON names of the tagged, exported fields (embedded structs walked)
// to fields; a known name yields the field's value boxed in an interface (a nil pointer field comes back as a typed
// nil), an unknown one the error "object has no field ...".  Nothing is written.
func (fc *fctx) getForToken(cc *ssa.CallCommon, args []*Val, pos token.Pos) []*Val {
	tr := fc.tr
	u := tr.u
	inner, t := staticArgType(cc.Args[0])
	if inner == nil {
		return nil
	}
	if pt, ok := t.Underlying().(*types.Pointer); ok {
		// a pointer to a kind that is JSONPointable by value: jsonpointer answers a nil pointer with an error and
		// otherwise hands the token to the kind's own JSONLookup (the real method, through its contract or inlined)
		if est, _ := structOf(pt.Elem()); est != nil {
			if m := tr.methodOf(pt.Elem(), "JSONLookup"); m != nil && len(m.Params) == 2 {
				if _, recvIsPtr := m.Params[0].Type().Underlying().(*types.Pointer); !recvIsPtr {
					return fc.getForTokenPointable(cc, inner, pt.Elem(), m, args, pos)
				}
			}
		}
		return nil
	}
	if slt, ok := t.Underlying().(*types.Slice); ok {
		// a slice of a struct kind: the token is an index (strconv.Atoi as jsonpointer uses it); in range -> the element,
		// boxed by value; anything else -> an error. Nothing is written.
		if est, _ := structOf(slt.Elem()); est != nil {
			return fc.getForTokenSlice(cc, inner, slt, args)
		}
		return nil
	}
	st, _ := structOf(t)
	if st == nil {
		return nil
	}
	if m := tr.methodOf(t, "JSONLookup"); m != nil {
		return nil
	}
	tr.jsonDecls()
	sv := fc.val(inner)
	tok := args[1]
	res := cc.Signature().Results()
	r := fc.freshVal("gft_r", res.At(0).Type())
	kind := fc.freshVal("gft_k", res.At(1).Type())
	errv := fc.freshVal("gft_err", res.At(2).Type())
	ift := types.NewInterfaceType(nil, nil)
	ienc := tr.encFn(ift)
	var known []string
	for _, f := range jsonFields(st) {
		if !f.tagged {
			unsup("jsonpointer.GetForToken on a struct with an untagged field (%s)", f.name)
		}
		fv := sv
		for _, i := range f.path {
			if i == derefStep {
				unsup("jsonpointer.GetForToken on a struct with an embedded pointer")
			}
			fv = u.fieldOf(fv, i)
		}
		isK := eq(tok.E(), smtString(f.name))
		known = append(known, isK)
		boxed := mkIface(ift, fmt.Sprint(u.typeID(f.typ)), u.box(fv))
		if fv.Sort == "Iface" {
			boxed = fv // a field of interface type: Interface() returns the interface value itself
		}
		// encoding the returned interface value is encoding the field (encoding/json encodes the dynamic value)
		tr.assume(implies(isK, and(eq(r.E(), boxed.E()), eq("("+ienc+" "+r.E()+")", "("+tr.encFn(f.typ)+" "+fv.E()+")"))))
	}
	any := or(known...)
	tr.u.decl("specfn:errText", "(declare-fun errText (Iface) String)")
	tr.assume(implies(any, eq(ifPart(errv, 0), "0")))
	tr.assume(implies(not(any), and(eq(ifPart(r, 0), "0"), not(eq(ifPart(errv, 0), "0")), "(str.prefixof \"object has no field\" (errText "+errv.E()+"))")))
	tr.trusted["jsonpointer.GetForToken on a struct value: swag name provider = JSON names of tagged exported fields (embedded structs walked); known name -> field value boxed (typed nil for nil pointers), unknown -> error \"object has no field ...\"; encoding the boxed value is encoding the field"] = true
	return []*Val{r, kind, errv}
}

func (fc *fctx) getForTokenPointable(cc *ssa.CallCommon, inner ssa.Value, elem types.Type, m *ssa.Function, args []*Val, pos token.Pos) []*Val {
	tr := fc.tr
	tr.jsonDecls()
	ptr := fc.val(inner)
	nonnil := not(eq(ptr.E(), "0"))
	saveReach := tr.reach
	before := tr.cur.clone()
	tr.reach = and(saveReach, nonnil)
	recv := tr.load(tr.cur, ptr.E(), elem)
	margs := []*Val{recv, args[1]}
	var res []*Val
	if c, ok := tr.contracts.Funcs[fnKey(m)]; ok && !tr.inlineAnyway[fnKey(m)] {
		res = fc.callContractFn(c, m, margs, pos)
	} else {
		res = fc.inline(m, margs, nil, pos)
	}
	after := tr.cur
	tr.reach = saveReach
	tr.cur = tr.mergeStates([]string{nonnil, not(nonnil)}, []*State{after, before})
	rs := cc.Signature().Results()
	r := fc.freshVal("gftp_r", rs.At(0).Type())
	kind := fc.freshVal("gftp_k", rs.At(1).Type())
	errv := fc.freshVal("gftp_err", rs.At(2).Type())
	if len(res) == 2 {
		tr.assume(implies(nonnil, and(eq(r.E(), res[0].E()), eq(errv.E(), res[1].E()))))
	}
	tr.assume(implies(not(nonnil), and(eq(ifPart(r, 0), "0"), not(eq(ifPart(errv, 0), "0")))))
	tr.trusted["jsonpointer.GetForToken on a pointer to a JSONPointable kind: a nil pointer is an error, otherwise the kind's own JSONLookup answers"] = true
	return []*Val{r, kind, errv}
}

func (fc *fctx) getForTokenSlice(cc *ssa.CallCommon, inner ssa.Value, slt *types.Slice, args []*Val) []*Val {
	tr := fc.tr
	u := tr.u
	tr.jsonDecls()
	u.decl("specfn:atoiOK", "(declare-fun atoiOK (String) Bool)")
	u.decl("specfn:atoi", "(declare-fun atoi (String) Int)")
	sl := fc.val(inner)
	tok := args[1]
	rs := cc.Signature().Results()
	r := fc.freshVal("gfts_r", rs.At(0).Type())
	kind := fc.freshVal("gfts_k", rs.At(1).Type())
	errv := fc.freshVal("gfts_err", rs.At(2).Type())
	idx := "(atoi " + tok.E() + ")"
	in := and("(atoiOK "+tok.E()+")", "(<= 0 "+idx+")", "(< "+idx+" "+slPart(sl, 2)+")")
	elem := tr.load(tr.cur, u.sla(sl, idx), slt.Elem())
	ift := types.NewInterfaceType(nil, nil)
	boxed := mkIface(ift, fmt.Sprint(u.typeID(slt.Elem())), u.box(elem))
	tr.assume(implies(in, and(eq(r.E(), boxed.E()), eq(ifPart(errv, 0), "0"))))
	tr.assume(implies(not(in), and(eq(ifPart(r, 0), "0"), not(eq(ifPart(errv, 0), "0")))))
	tr.trusted["jsonpointer.GetForToken on a slice of a struct kind: a token that strconv.Atoi accepts and that is in range yields the element (boxed by value), any other token an error"] = true
	return []*Val{r, kind, errv}
}
