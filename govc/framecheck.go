package main

// Obligations decided by the FRAME back end.

import (
	"fmt"
	"go/token"
	"go/types"
	"sort"
	"strings"
	"time"

	"golang.org/x/tools/go/ssa"
)

type frameRun struct {
	a     *pta
	entry *ssa.Function
	key   string
}

var frameCache = map[string]*frameRun{}

func runFrame(l *loaded, key string) *frameRun {
	if r, ok := frameCache[key]; ok {
		return r
	}
	fn := l.funcs[key]
	if fn == nil {
		return nil
	}
	a := newPTA(l)
	a.analyze(fn)
	r := &frameRun{a: a, entry: fn, key: key}
	frameCache[key] = r
	return r
}

// offending write events: those that touch a cell satisfying bad(), outside functions in allowed.
func (r *frameRun) offending(bad func(cell string) bool, allowed map[string]bool) []string {
	var out []string
	for _, w := range r.a.writes {
		if k := fnKey(w.fn); allowed[k] || (allowed["init"] && strings.HasPrefix(k, "init#")) {
			continue
		}
		var hit []string
		for c := range w.cells {
			if bad(c) {
				hit = append(hit, c)
			}
		}
		if len(hit) > 0 {
			sort.Strings(hit)
			if len(hit) > 3 {
				hit = hit[:3]
			}
			pos := r.a.l.prog.Fset.Position(w.pos)
			f := pos.Filename
			if i := strings.LastIndex(f, "/"); i >= 0 {
				f = f[i+1:]
			}
			out = append(out, fmt.Sprintf("%s in %s (%s:%d) writes %s", w.what, fnKey(w.fn), f, pos.Line, strings.Join(hit, ", ")))
		}
	}
	sort.Strings(out)
	return out
}

func frameObl(run *PropRun, name, src string, offending []string, dt float64) {
	o := &Obligation{Name: name, Kind: "frame", Props: []string{run.Prop}, Src: src, Solver: "FRAME", Time: dt, Expect: "unsat"}
	if len(offending) == 0 {
		o.Status = "proved"
	} else {
		o.Status = "failed"
		o.Model = strings.Join(offending, "\n")
		o.replayNote = "FRAME obligation: offending SSA write sites are listed below (no input model exists for a syntactic frame check)"
	}
	run.Extra = append(run.Extra, o)
}

// functions that may initialise package-level state (run under init / sync.Once before any result is observable)
var initWriters = map[string]bool{"init": true, "initResolutionCache": true, "defaultResolutionCache": true, "debugOptions": true,
	"MustLoadJSONSchemaDraft04": true, "MustLoadSwagger20Schema": true, "JSONSchemaDraft04": true, "Swagger20Schema": true, "loadSchema": true, "jsonschemaDraft04JSONBytes": true, "v2SchemaJSONBytes": true}

func exportedEntryPoints(l *loaded) []string {
	var out []string
	for k, fn := range l.funcs {
		if fn.Pkg != l.spkg || fn.Synthetic != "" || fn.Parent() != nil || len(fn.Blocks) == 0 {
			continue
		}
		if strings.HasPrefix(fn.Name(), "verifLemma") || fn.Name() == "init" {
			continue
		}
		name := fn.Name()
		if name[0] < 'A' || name[0] > 'Z' {
			continue
		}
		out = append(out, k)
	}
	sort.Strings(out)
	return out
}

var expanderEntries = []string{"ExpandSpec", "ExpandSchema", "ExpandSchemaWithBasePath", "ExpandParameter", "ExpandParameterWithRoot", "ExpandResponse", "ExpandResponseWithRoot",
	"ResolveRef", "ResolveRefWithBase", "ResolveParameter", "ResolveParameterWithBase", "ResolveResponse", "ResolveResponseWithBase", "ResolvePathItem", "ResolvePathItemWithBase",
	"ResolveItems", "ResolveItemsWithBase"}

func isGlobalCell(c string) bool { return strings.HasPrefix(c, "G:") }

func frameGlobalObligations(l *loaded, run *PropRun, entries []string) {
	for _, k := range entries {
		t0 := time.Now()
		r := runFrame(l, k)
		if r == nil {
			frameObl(run, "global/"+k, "entry point no longer exists", []string{"missing function " + k}, 0)
			continue
		}
		// everything reachable from any package-level variable
		start := cellSet{}
		for c := range r.a.content {
			if isGlobalCell(rootOf(c)) {
				start[c] = true
			}
		}
		reach := r.a.closure(start)
		delete(reach, "EXT")
		off := r.offending(func(c string) bool {
			if isGlobalCell(c) || isGlobalCell(rootOf(c)) {
				return true
			}
			if r.a.summary[rootOf(c)] {
				return false
			}
			return reach[c] || reach[rootOf(c)]
		}, initWriters)
		frameObl(run, "global/"+k, "no function reachable from "+k+" writes a package-level variable or memory reachable from one (initialisers under init/sync.Once excepted)", off, time.Since(t0).Seconds())
		for n, v := range r.a.extUsed {
			run.Trusted["FRAME effect of "+n+": "+v] = true
		}
	}
}

// metaschema: nothing reachable from the package cache is written outside the initialisers
func frameMetaObligations(l *loaded, run *PropRun, entries []string) {
	for _, k := range entries {
		t0 := time.Now()
		r := runFrame(l, k)
		if r == nil {
			continue
		}
		reach := r.a.closure(cellSet{"G:resCache": true})
		delete(reach, "EXT")
		off := r.offending(func(c string) bool { return reach[c] || reach[rootOf(c)] }, initWriters)
		frameObl(run, "metaschema/"+k, "nothing reachable from the package-level cache (the built-in meta-schemas) is written by "+k, off, time.Since(t0).Seconds())
	}
}

// params of entry point that must not be written (anything reachable from them)
func frameParamObligations(l *loaded, run *PropRun, k string, params []string, label string) {
	t0 := time.Now()
	r := runFrame(l, k)
	if r == nil {
		frameObl(run, label+"/"+k, "entry point no longer exists", []string{"missing function " + k}, 0)
		return
	}
	for _, p := range params {
		found := false
		for _, q := range r.entry.Params {
			if q.Name() == p {
				found = true
			}
		}
		if !found {
			frameObl(run, label+"/"+k+"/"+p, "parameter no longer exists", []string{"missing parameter " + p}, 0)
			continue
		}
		cell := "P:" + p
		off := r.offending(func(c string) bool { return rootOf(c) == cell }, nil)
		frameObl(run, label+"/"+k+"/"+p, "nothing reachable from parameter "+p+" of "+k+" is written", off, time.Since(t0).Seconds())
	}
	for n, v := range r.a.extUsed {
		run.Trusted["FRAME effect of "+n+": "+v] = true
	}
}

// ---------------------------------------------------------------------------
// lockset discipline for fields guarded by a sync.RWMutex in the same struct

type lockState int

const (
	lkNone lockState = iota
	lkR
	lkW
	lkTop // unknown / conflicting
)

// lockObligations checks, for every function of the package that touches field `field` of struct type
// `typ`, that map reads happen under the struct's lock (R or W), map writes under W, that the lock is
// released on every return, and that no other call is made while it is held.
func lockObligations(l *loaded, run *PropRun, typ, field, lockField string) {
	var keys []string
	for k := range l.funcs {
		keys = append(keys, k)
	}
	sort.Strings(keys)
	nfuncs := 0
	for _, k := range keys {
		fn := l.funcs[k]
		if fn.Pkg != l.spkg || len(fn.Blocks) == 0 {
			continue
		}
		// does it access the guarded field?
		guarded := map[ssa.Value]bool{} // values holding the guarded map
		fieldAddrs := map[ssa.Value]bool{}
		for _, b := range fn.Blocks {
			for _, ins := range b.Instrs {
				if fa, ok := ins.(*ssa.FieldAddr); ok {
					if n, ok := derefNamed(fa.X.Type()); ok && n.Obj().Name() == typ {
						st := n.Underlying().(*types.Struct)
						if st.Field(fa.Field).Name() == field {
							fieldAddrs[fa] = true
						}
					}
				}
			}
		}
		if len(fieldAddrs) == 0 {
			continue
		}
		nfuncs++
		t0 := time.Now()
		var problems []string
		posOf := func(ins ssa.Instruction) string {
			p := l.prog.Fset.Position(ins.Pos())
			f := p.Filename
			if i := strings.LastIndex(f, "/"); i >= 0 {
				f = f[i+1:]
			}
			return fmt.Sprintf("%s:%d", f, p.Line)
		}
		// constructors: the struct is freshly allocated in this function (not yet shared)
		isFreshBase := func(v ssa.Value) bool {
			if fa, ok := v.(*ssa.FieldAddr); ok {
				_, isAlloc := fa.X.(*ssa.Alloc)
				return isAlloc
			}
			return false
		}
		for _, b := range fn.Blocks {
			for _, ins := range b.Instrs {
				if u, ok := ins.(*ssa.UnOp); ok && u.Op == token.MUL && fieldAddrs[u.X] {
					guarded[u] = true
				}
			}
		}
		// forward dataflow of the lock state
		in := map[*ssa.BasicBlock]lockState{}
		seen := map[*ssa.BasicBlock]bool{}
		work := []*ssa.BasicBlock{fn.Blocks[0]}
		in[fn.Blocks[0]] = lkNone
		seen[fn.Blocks[0]] = true
		reported := map[string]bool{}
		report := func(s string) {
			if !reported[s] {
				reported[s] = true
				problems = append(problems, s)
			}
		}
		deferredUnlock := false
		for len(work) > 0 {
			b := work[0]
			work = work[1:]
			st := in[b]
			for _, ins := range b.Instrs {
				switch x := ins.(type) {
				case *ssa.Defer:
					if c := x.Common().StaticCallee(); c != nil && (c.String() == "(*sync.RWMutex).Unlock" || c.String() == "(*sync.RWMutex).RUnlock") {
						deferredUnlock = true
					}
				case *ssa.Call:
					callee := x.Common().StaticCallee()
					name := ""
					if callee != nil {
						name = callee.String()
					}
					switch name {
					case "(*sync.RWMutex).Lock":
						if st != lkNone {
							report("second acquisition while the lock is held at " + posOf(ins))
						}
						st = lkW
					case "(*sync.RWMutex).RLock":
						if st != lkNone {
							report("second acquisition while the lock is held at " + posOf(ins))
						}
						st = lkR
					case "(*sync.RWMutex).Unlock", "(*sync.RWMutex).RUnlock":
						if st == lkNone {
							report("unlock without lock at " + posOf(ins))
						}
						st = lkNone
					default:
						if b, ok := x.Common().Value.(*ssa.Builtin); ok {
							if b.Name() == "len" && len(x.Common().Args) == 1 && guarded[x.Common().Args[0]] && st == lkNone {
								report("len(" + field + ") read without the lock at " + posOf(ins))
							}
							if b.Name() == "delete" && guarded[x.Common().Args[0]] && st != lkW {
								report("delete on " + field + " without the write lock at " + posOf(ins))
							}
						} else if st != lkNone {
							report("call of " + name + " while the lock is held at " + posOf(ins))
						}
					}
				case *ssa.Lookup:
					if guarded[x.X] && st == lkNone {
						report("map read of " + field + " without the lock at " + posOf(ins))
					}
				case *ssa.Range:
					if guarded[x.X] && st == lkNone {
						report("range over " + field + " without the lock at " + posOf(ins))
					}
				case *ssa.Next:
					if r, ok := x.Iter.(*ssa.Range); ok && guarded[r.X] && st == lkNone {
						report("iteration over " + field + " without the lock at " + posOf(ins))
					}
				case *ssa.MapUpdate:
					if guarded[x.Map] && st != lkW {
						report("map write of " + field + " without the write lock at " + posOf(ins))
					}
				case *ssa.Store:
					if fieldAddrs[x.Addr] && !isFreshBase(x.Addr) && st != lkW {
						report("assignment to " + field + " of a shared value without the write lock at " + posOf(ins))
					}
				case *ssa.Return:
					if st != lkNone && !deferredUnlock {
						report("return with the lock held at " + posOf(ins))
					}
				}
			}
			for _, s := range b.Succs {
				if !seen[s] {
					seen[s] = true
					in[s] = st
					work = append(work, s)
				} else if in[s] != st && in[s] != lkTop {
					in[s] = lkTop
					report(fmt.Sprintf("lock state differs between paths into block %d", s.Index))
				}
			}
		}
		// uses of the guarded map value that escape the critical section: the map value must not be
		// stored, returned or passed on
		for _, b := range fn.Blocks {
			for _, ins := range b.Instrs {
				switch x := ins.(type) {
				case *ssa.Store:
					if guarded[x.Val] {
						report("guarded map escapes by assignment at " + posOf(ins))
					}
				case *ssa.Return:
					for _, r := range x.Results {
						if guarded[r] {
							report("guarded map returned at " + posOf(ins))
						}
					}
				}
			}
		}
		sort.Strings(problems)
		// known, justified exception: the unlocked len() in ShallowClone is admissible on a frozen receiver
		var remaining []string
		for _, p := range problems {
			if k == "(*simpleCache).ShallowClone" && strings.HasPrefix(p, "len("+field+") read without the lock") {
				continue
			}
			remaining = append(remaining, p)
		}
		frameObl(run, "lock/"+k, "accesses to "+typ+"."+field+" hold "+typ+"."+lockField+" in the needed mode; balanced, non-nested, no calls under the lock", remaining, time.Since(t0).Seconds())
	}
	if nfuncs == 0 {
		frameObl(run, "lock/none", "no function accesses "+typ+"."+field, []string{"the guarded field is not accessed anywhere: the lock discipline no longer binds"}, 0)
	}
	// frozen receiver: ShallowClone reads len(store) before taking the lock; admissible only if every call
	// site passes the package-level cache, which nothing writes after initialisation (global/* obligations)
	var bad []string
	ncalls := 0
	for _, k := range keys {
		fn := l.funcs[k]
		if fn.Pkg != l.spkg {
			continue
		}
		for _, b := range fn.Blocks {
			for _, ins := range b.Instrs {
				c, ok := ins.(ssa.CallInstruction)
				if !ok {
					continue
				}
				callee := c.Common().StaticCallee()
				if callee == nil || fnKey(callee) != "(*simpleCache).ShallowClone" {
					continue
				}
				ncalls++
				okRecv := false
				if u, ok := c.Common().Args[0].(*ssa.UnOp); ok && u.Op == token.MUL {
					if g, ok := u.X.(*ssa.Global); ok && g.Name() == "resCache" {
						okRecv = true
					}
				}
				if !okRecv {
					p := l.prog.Fset.Position(ins.Pos())
					bad = append(bad, fmt.Sprintf("ShallowClone called on a receiver other than the frozen package cache in %s (line %d)", k, p.Line))
				}
			}
		}
	}
	frameObl(run, "lock/(*simpleCache).ShallowClone/frozen-receiver", "ShallowClone (which reads len(store) before locking) is only ever called on the package-level cache, which is never written after initialisation", bad, 0)
}

// readonly: methods that may run concurrently on a shared document must not write anything reachable from it
func frameReadonlyObligations(l *loaded, run *PropRun, methodNames map[string]bool) {
	var keys []string
	for k, fn := range l.funcs {
		if fn.Pkg != l.spkg || fn.Synthetic != "" || len(fn.Blocks) == 0 || fn.Signature.Recv() == nil {
			continue
		}
		if methodNames[fn.Name()] {
			keys = append(keys, k)
		}
	}
	sort.Strings(keys)
	for _, k := range keys {
		t0 := time.Now()
		r := runFrame(l, k)
		recv := r.entry.Params[0].Name()
		cell := "P:" + recv
		off := r.offending(func(c string) bool { return rootOf(c) == cell }, nil)
		frameObl(run, "readonly/"+k, k+" writes nothing reachable from its receiver (safe on a shared document)", off, time.Since(t0).Seconds())
		for n, v := range r.a.extUsed {
			run.Trusted["FRAME effect of "+n+": "+v] = true
		}
	}
}

// onceObligations (C17, C16): a package-level variable that is written by a function run under sync.Once.Do (lazy
// initialisation) must be read only by that initialiser or at points dominated by the Do call of the same Once in the
// same function: any other read has no happens-before edge with the initialising write.
func onceObligations(l *loaded, run *PropRun) {
	t0 := time.Now()
	// initialisers: functions passed to (*sync.Once).Do, with the Once global they are run under
	type doCall struct {
		fn    *ssa.Function // caller
		instr *ssa.Call
		once  *ssa.Global
		init  *ssa.Function
	}
	var dos []doCall
	var keys []string
	for k := range l.funcs {
		keys = append(keys, k)
	}
	sort.Strings(keys)
	for _, k := range keys {
		fn := l.funcs[k]
		if fn.Pkg != l.spkg {
			continue
		}
		for _, b := range fn.Blocks {
			for _, ins := range b.Instrs {
				c, ok := ins.(*ssa.Call)
				if !ok {
					continue
				}
				callee := c.Call.StaticCallee()
				if callee == nil || callee.String() != "(*sync.Once).Do" || len(c.Call.Args) != 2 {
					continue
				}
				g, _ := c.Call.Args[0].(*ssa.Global)
				var initFn *ssa.Function
				switch f := c.Call.Args[1].(type) {
				case *ssa.Function:
					initFn = f
				case *ssa.MakeClosure:
					initFn, _ = f.Fn.(*ssa.Function)
				}
				if g != nil && initFn != nil {
					dos = append(dos, doCall{fn, c, g, initFn})
				}
			}
		}
	}
	// globals written by an initialiser
	guardedBy := map[*ssa.Global]*ssa.Global{} // variable -> its Once
	initOf := map[*ssa.Global]*ssa.Function{}
	for _, d := range dos {
		for _, b := range d.init.Blocks {
			for _, ins := range b.Instrs {
				if st, ok := ins.(*ssa.Store); ok {
					if g, ok := st.Addr.(*ssa.Global); ok && g.Pkg == l.spkg {
						guardedBy[g] = d.once
						initOf[g] = d.init
					}
				}
			}
		}
	}
	var problems []string
	for _, k := range keys {
		fn := l.funcs[k]
		if fn.Pkg != l.spkg || len(fn.Blocks) == 0 {
			continue
		}
		for _, b := range fn.Blocks {
			for i, ins := range b.Instrs {
				u, ok := ins.(*ssa.UnOp)
				if !ok || u.Op != token.MUL {
					continue
				}
				g, ok := u.X.(*ssa.Global)
				if !ok || guardedBy[g] == nil || fn == initOf[g] {
					continue
				}
				// dominated by a Do call on the variable's Once in this function?
				okRead := false
				for _, d := range dos {
					if d.fn != fn || d.once != guardedBy[g] {
						continue
					}
					db := d.instr.Block()
					if db == b {
						for j := 0; j < i; j++ {
							if b.Instrs[j] == ssa.Instruction(d.instr) {
								okRead = true
							}
						}
					} else if db.Dominates(b) {
						okRead = true
					}
				}
				if !okRead {
					p := l.prog.Fset.Position(u.Pos())
					f := p.Filename
					if j := strings.LastIndex(f, "/"); j >= 0 {
						f = f[j+1:]
					}
					problems = append(problems, fmt.Sprintf("read of %s in %s (%s:%d) is not preceded by %s.Do on every path", g.Name(), fnKey(fn), f, p.Line, guardedBy[g].Name()))
				}
			}
		}
	}
	var names []string
	for g := range guardedBy {
		names = append(names, g.Name())
	}
	sort.Strings(names)
	frameObl(run, "once/lazily-initialised-globals", "package-level variables written under sync.Once ("+strings.Join(names, ", ")+") are read only by their initialiser or after the Do call of their Once in the same function", problems, time.Since(t0).Seconds())
	if len(guardedBy) == 0 {
		run.Extra[len(run.Extra)-1].Status = "failed"
		run.Extra[len(run.Extra)-1].Model = "no package-level variable is initialised under sync.Once any more: the obligation no longer binds"
	}
}

// initialiserCallObligation: the global-write obligations exempt the functions listed in initWriters by name ("runs under
// init or sync.Once before any result is observable"). That exemption is justified only if it is true of every use of
// such a function. Obligation: every function of the list that stores into a package-level variable is (a) called only
// from init or from another function of the list, and (b) used as a value only as the argument of (*sync.Once).Do.
func initialiserCallObligation(l *loaded, run *PropRun) {
	t0 := time.Now()
	writers := map[*ssa.Function]bool{}
	var keys []string
	for k := range l.funcs {
		keys = append(keys, k)
	}
	sort.Strings(keys)
	for _, k := range keys {
		fn := l.funcs[k]
		if fn.Pkg != l.spkg || !initWriters[fn.Name()] || fn.Name() == "init" || strings.HasPrefix(fn.Name(), "init#") {
			continue
		}
		for _, b := range fn.Blocks {
			for _, ins := range b.Instrs {
				if st, ok := ins.(*ssa.Store); ok && globalRoot(st.Addr) != nil {
					writers[fn] = true
				}
			}
		}
	}
	var problems, names []string
	for f := range writers {
		names = append(names, f.Name())
	}
	sort.Strings(names)
	for _, k := range keys {
		fn := l.funcs[k]
		if fn.Pkg != l.spkg || len(fn.Blocks) == 0 || strings.HasPrefix(fn.Name(), "verifLemma") {
			continue
		}
		callerOK := fn.Name() == "init" || strings.HasPrefix(fn.Name(), "init#") || initWriters[fn.Name()]
		for _, b := range fn.Blocks {
			for _, ins := range b.Instrs {
				where := func() string {
					p := l.prog.Fset.Position(ins.Pos())
					f := p.Filename
					if j := strings.LastIndex(f, "/"); j >= 0 {
						f = f[j+1:]
					}
					return fmt.Sprintf("%s (%s:%d)", fnKey(fn), f, p.Line)
				}
				if ci, ok := ins.(ssa.CallInstruction); ok {
					cc := ci.Common()
					if callee := cc.StaticCallee(); callee != nil && writers[callee] && !callerOK {
						problems = append(problems, fmt.Sprintf("initialiser %s, which writes package-level state, is called from %s: not under init or sync.Once", callee.Name(), where()))
					}
					isDo := cc.StaticCallee() != nil && cc.StaticCallee().String() == "(*sync.Once).Do"
					for ai, a := range cc.Args {
						if f := funcValue(a); f != nil && writers[f] && !(isDo && ai == 1) {
							problems = append(problems, fmt.Sprintf("initialiser %s is passed as a value in %s to something else than sync.Once.Do", f.Name(), where()))
						}
					}
					continue
				}
				if _, dbg := ins.(*ssa.DebugRef); dbg {
					continue // source-level bookkeeping, not a use
				}
				for _, op := range ins.Operands(nil) {
					if op == nil || *op == nil {
						continue
					}
					if f := funcValue(*op); f != nil && writers[f] {
						problems = append(problems, fmt.Sprintf("initialiser %s escapes as a value in %s", f.Name(), where()))
					}
				}
			}
		}
	}
	sort.Strings(problems)
	frameObl(run, "once/initialisers-run-only-under-init-or-once", "functions exempted from the global-write obligations as initialisers and storing into package-level variables ("+strings.Join(names, ", ")+") are called only from init or another initialiser, and passed only to sync.Once.Do", problems, time.Since(t0).Seconds())
}

func funcValue(v ssa.Value) *ssa.Function {
	switch f := v.(type) {
	case *ssa.Function:
		return f
	case *ssa.MakeClosure:
		fn, _ := f.Fn.(*ssa.Function)
		return fn
	}
	return nil
}

// globalRoot: the package-level variable an address is rooted at (through field and index selections), or nil.
func globalRoot(v ssa.Value) *ssa.Global {
	for {
		switch a := v.(type) {
		case *ssa.Global:
			return a
		case *ssa.FieldAddr:
			v = a.X
		case *ssa.IndexAddr:
			v = a.X
		default:
			return nil
		}
	}
}
