package main

// Cone-of-influence pruning of the fact prefix of an obligation.
//
// Facts of the form (= c t), where c is a constant introduced by the generator for exactly this
// equation, are definitions: they are needed only if c is relevant.  Every other fact is an assumption:
// it is kept if it mentions a relevant constant (or no generated constant at all).  Relevance starts
// from the constants of the goal and is closed under the constants of every kept fact.  Dropping facts
// can only make a proof harder, never unsound.

import (
	"strings"
)

type factInfo struct {
	def  string   // defined constant ("" for assumptions)
	syms []string // generated constants mentioned
}

func (tr *Translator) factInfos() []factInfo {
	if len(tr.finfo) == len(tr.facts) {
		return tr.finfo
	}
	for i := len(tr.finfo); i < len(tr.facts); i++ {
		f := tr.facts[i]
		fi := factInfo{syms: tr.constsIn(f)}
		if d, ok := tr.factDefs[i]; ok {
			fi.def = d
		} else if strings.HasPrefix(f, "(= ") {
			rest := f[3:]
			j := strings.IndexAny(rest, " ()")
			if j > 0 && rest[j] == ' ' {
				name := rest[:j]
				if tr.u.isGenConst(name) && tr.defCount[name] <= 1 {
					fi.def = name
				}
			}
		}
		tr.finfo = append(tr.finfo, fi)
	}
	return tr.finfo
}

func (u *Universe) isGenConst(name string) bool {
	return u.genConsts[name]
}

func (tr *Translator) constsIn(s string) []string {
	var out []string
	seen := map[string]bool{}
	i, n := 0, len(s)
	for i < n {
		c := s[i]
		if c == '"' {
			j := i + 1
			for j < n {
				if s[j] == '"' {
					if j+1 < n && s[j+1] == '"' {
						j += 2
						continue
					}
					break
				}
				j++
			}
			i = j + 1
			continue
		}
		if c == '(' || c == ')' || c == ' ' || c == '\n' {
			i++
			continue
		}
		j := i
		for j < n && s[j] != '(' && s[j] != ')' && s[j] != ' ' && s[j] != '\n' && s[j] != '"' {
			j++
		}
		tok := s[i:j]
		if tr.u.genConsts[tok] && !seen[tok] {
			seen[tok] = true
			out = append(out, tok)
		}
		i = j
	}
	return out
}

// relevantFacts returns the indices (< n) of facts kept for a goal.
func (tr *Translator) relevantFacts(goal string, extra []string, n int, skeleton bool) []bool {
	infos := tr.factInfos()
	keep := make([]bool, n)
	rel := map[string]bool{}
	var work []string
	add := func(s string) {
		if !rel[s] {
			rel[s] = true
			work = append(work, s)
		}
	}
	for _, s := range tr.constsIn(goal) {
		add(s)
	}
	for _, e := range extra {
		for _, s := range tr.constsIn(e) {
			add(s)
		}
	}
	// index: constant -> facts mentioning it
	byConst := tr.factIndex(n)
	for i := 0; i < n; i++ {
		if infos[i].def == "" && len(infos[i].syms) == 0 {
			keep[i] = true
		}
	}
	for len(work) > 0 {
		c := work[len(work)-1]
		work = work[:len(work)-1]
		for _, i := range byConst[c] {
			if i >= n || keep[i] {
				continue
			}
			fi := infos[i]
			if fi.def != "" && fi.def != c && !rel[fi.def] {
				continue // a definition of something not (yet) relevant
			}
			keep[i] = true
			if skeleton && fi.def != "" && tr.reachConsts[fi.def] {
				// control skeleton only: the data behind branch conditions is not pulled in
				for _, s := range fi.syms {
					if tr.reachConsts[s] {
						add(s)
					}
				}
				continue
			}
			for _, s := range fi.syms {
				add(s)
			}
		}
	}
	return keep
}

func (tr *Translator) factIndex(n int) map[string][]int {
	if tr.fidx == nil {
		tr.fidx = map[string][]int{}
	}
	infos := tr.factInfos()
	for i := tr.fidxN; i < len(infos); i++ {
		for _, s := range infos[i].syms {
			tr.fidx[s] = append(tr.fidx[s], i)
		}
	}
	tr.fidxN = len(infos)
	return tr.fidx
}
