#!/bin/bash
# run the quick check of the given properties (default: all claimed) and print one line each
for p in "$@"; do
  /usr/bin/time -f "%es" -o /tmp/time_$p ./check $p quick > /tmp/out_$p.txt 2>&1; rc=$?
  echo "$p rc=$rc $(cat /tmp/time_$p) $(head -1 /tmp/out_$p.txt)"
done
