package spec

// Bounded conformance harness for the assumed contracts on dependencies (the trusted base of the contract proofs).
// Run by the thorough tier through `go test -overlay` (nothing is written to /repo).  Each test enumerates a stated,
// finite input space and checks the assumed law against the REAL dependency; it is a bounded stand-in for verifying
// the dependency and never turns an assumption into a proof.  The bound of each test is in its doc comment.

import (
	"bytes"
	"encoding/gob"
	"encoding/json"
	"net/url"
	"path"
	"path/filepath"
	"reflect"
	"strconv"
	"strings"
	"testing"

	"github.com/go-openapi/jsonpointer"
	"github.com/go-openapi/jsonreference"
	"github.com/go-openapi/swag"
)

func verifAllStrings(alphabet []string, maxLen int, f func(string)) {
	var rec func(prefix string, n int)
	rec = func(prefix string, n int) {
		f(prefix)
		if n == maxLen {
			return
		}
		for _, a := range alphabet {
			rec(prefix+a, n+1)
		}
	}
	rec("", 0)
}

// Bound: every string over {a, b, ., /} of length <= 7 (21845 strings), pairs up to length 4 each.
func TestVerifAxiomPathLaws(t *testing.T) {
	alpha := []string{"a", "b", ".", "/"}
	n := 0
	verifAllStrings(alpha, 7, func(p string) {
		n++
		c := path.Clean(p)
		if path.Clean(c) != c || c == "" || strings.HasPrefix(c, "/") != strings.HasPrefix(p, "/") {
			t.Fatalf("pathClean law fails for %q -> %q", p, c)
		}
		if c == p && strings.Contains(p, "//") {
			t.Fatalf("noEmptySegmentLaw fails for %q", p)
		}
		d := path.Dir(p)
		if path.Clean(d) != d || strings.HasPrefix(d, "/") != strings.HasPrefix(p, "/") {
			t.Fatalf("pathDir law fails for %q -> %q", p, d)
		}
		if c == p && strings.HasSuffix(p, "/") && p != "/" {
			t.Fatalf("trailingSlashLaw fails for %q", p)
		}
		if path.Clean("//"+p) != path.Clean("/"+p) {
			t.Fatalf("rootJoinLaw fails for %q", p)
		}
		if path.IsAbs(p) != strings.HasPrefix(p, "/") {
			t.Fatalf("IsAbs law fails for %q", p)
		}
	})
	if path.Clean("") != "." || path.Clean(".") != "." || path.Clean("/") != "/" {
		t.Fatal("pathClean constants")
	}
	verifAllStrings(alpha, 4, func(a string) {
		verifAllStrings(alpha, 4, func(b string) {
			j := path.Join(a, b)
			switch {
			case a != "" && b != "":
				if j != path.Clean(a+"/"+b) {
					t.Fatalf("Join(%q,%q)=%q", a, b, j)
				}
			case a == "" && b == "":
				if j != "" {
					t.Fatalf("Join of empties = %q", j)
				}
			case a == "":
				if j != path.Clean(b) {
					t.Fatalf("Join(\"\",%q)=%q", b, j)
				}
			default:
				if j != path.Clean(a) {
					t.Fatalf("Join(%q,\"\")=%q", a, j)
				}
			}
			// cleanSuffixLaw: a clean path a+r with a ending in "/" and r non-empty: r is clean, not ".", not absolute
			if strings.HasSuffix(a, "/") && b != "" && path.Clean(a+b) == a+b {
				if path.Clean(b) != b || b == "." || strings.HasPrefix(b, "/") {
					t.Fatalf("cleanSuffixLaw fails for %q + %q", a, b)
				}
			}
		})
	})
	t.Logf("%d paths", n)
}

// Bound: 6 schemes x 5 hosts x 9 paths x 3 queries x 4 fragments = 3240 URL records.
func TestVerifAxiomURLRecords(t *testing.T) {
	schemes := []string{"", "http", "https", "file", "HTTP", "s3"}
	hosts := []string{"", "h", "Host.Example:80", "a.b:8443", "[::1]:443"}
	paths := []string{"", "/", "/a", "/a/b.json", "/a//b", "/a/../b", "/a%20b", "/é", "/a/"}
	queries := []string{"", "x=1", "a=b&c=d"}
	frags := []string{"", "/definitions/a", "/a~1b", "/p%7Bq%7D"}
	n := 0
	for _, s := range schemes {
		for _, h := range hosts {
			for _, p := range paths {
				for _, q := range queries {
					for _, f := range frags {
						if s == "" && h != "" {
							continue
						}
						raw := ""
						if s != "" {
							raw = s + ":"
						}
						if h != "" || s == "file" {
							raw += "//" + h
						}
						raw += p
						if q != "" {
							raw += "?" + q
						}
						if f != "" {
							raw += "#" + f
						}
						u, err := url.Parse(raw)
						if err != nil {
							continue
						}
						n++
						// printing a record and parsing it back gives the record
						u2, err := url.Parse(u.String())
						if err != nil || u2.Scheme != u.Scheme || u2.Host != u.Host || u2.Path != u.Path || u2.RawQuery != u.RawQuery || u2.Fragment != u.Fragment {
							t.Fatalf("parse(print) differs for %q: %#v vs %#v", raw, u, u2)
						}
						if strings.ToLower(u.Scheme) != u.Scheme {
							t.Fatalf("scheme not lower-cased for %q", raw)
						}
						if u2.String() != u.String() {
							t.Fatalf("print not stable for %q", raw)
						}
					}
				}
			}
		}
	}
	if u, err := url.Parse(""); err != nil || u.String() != "" || u.Scheme != "" || u.Host != "" || u.Path != "" {
		t.Fatal("empty record")
	}
	t.Logf("%d URL records", n)
}

// Bound: the same record corpus through jsonreference: the flags and the normalised record are the stated functions.
func TestVerifAxiomJSONReference(t *testing.T) {
	refs := []string{"", "#", "#/definitions/a", "a.json", "a.json#/x", "./a/../b.json#/y", "/abs/p.json", "http://h/p.json#/f", "HTTP://Host.Example:80/a//b?x=1#/f",
		"https://h:443/p", "file:///a/b.json", "file://host/a/b.json#/z", "file:/a/b", "s3://bucket/key", "http://h", "?q=1", "//h/p"}
	for _, s := range refs {
		r, err := jsonreference.New(s)
		pu, perr := url.Parse(s)
		if (err == nil) != (perr == nil) {
			t.Fatalf("New(%q) err=%v, url.Parse err=%v", s, err, perr)
		}
		if err != nil {
			continue
		}
		u := r.GetURL()
		if u.Scheme != pu.Scheme || u.RawQuery != pu.RawQuery || u.Fragment != pu.Fragment {
			t.Fatalf("record of %q: %#v vs %#v", s, u, pu)
		}
		if strings.Contains(u.Path, "//") && u.Path != pu.Path {
			t.Fatalf("path of %q not deduplicated: %q", s, u.Path)
		}
		if (u.Host == "") != (pu.Host == "") {
			t.Fatalf("host emptiness of %q", s)
		}
		full := pu.Scheme != "" && pu.Host != ""
		if r.HasFullURL != full || r.HasURLPathOnly != (!full && pu.Path != "") || r.HasFragmentOnly != (!full && pu.Path == "" && pu.RawQuery == "" && pu.Fragment != "") ||
			r.HasFileScheme != (pu.Scheme == "file") || r.HasFullFilePath != strings.HasPrefix(pu.Path, "/") {
			t.Fatalf("flags of %q: %+v", s, r)
		}
		if r.String() != u.String() {
			t.Fatalf("String of %q", s)
		}
		if r.IsCanonical() != ((r.HasFileScheme && r.HasFullFilePath) || (!r.HasFileScheme && r.HasFullURL)) {
			t.Fatalf("IsCanonical of %q", s)
		}
		if r.IsRoot() != (!r.IsCanonical() && !r.HasURLPathOnly && u.Fragment == "") {
			t.Fatalf("IsRoot of %q", s)
		}
		// canonicalisation is idempotent
		r2, err := jsonreference.New(r.String())
		if err != nil || r2.String() != r.String() {
			t.Fatalf("canonical form of %q is not a fixed point: %q -> %q", s, r.String(), r2.String())
		}
	}
}

// Bound: absolute and relative paths over {a, ., /} up to length 5.
func TestVerifAxiomFilepathAbs(t *testing.T) {
	verifAllStrings([]string{"a", ".", "/"}, 5, func(p string) {
		r, err := filepath.Abs(p)
		if err != nil {
			return
		}
		if !strings.HasPrefix(r, "/") || path.Clean(r) != r || r == "." {
			t.Fatalf("Abs(%q)=%q", p, r)
		}
		if strings.HasPrefix(p, "/") && r != path.Clean(p) {
			t.Fatalf("Abs of absolute %q = %q", p, r)
		}
	})
}

// Bound: integers -1000..100000 and a list of non-canonical spellings.
func TestVerifAxiomAtoiItoa(t *testing.T) {
	for i := -1000; i <= 100000; i++ {
		if n, err := strconv.Atoi(strconv.Itoa(i)); err != nil || n != i {
			t.Fatalf("atoi(itoa(%d))", i)
		}
	}
	for _, s := range []string{"040", "+1", "1 ", "", "x", "0x10", "1e3"} {
		if n, err := strconv.Atoi(s); err == nil && strconv.Itoa(n) == s {
			t.Fatalf("%q is canonical?", s)
		}
	}
}

// Bound: the value sets below for each member of the four props structs (tag-directed model of encoding/json).
func TestVerifAxiomJSONStructModel(t *testing.T) {
	f0, f1 := 0.0, 1.5
	i0, i3 := int64(0), int64(3)
	vals := []CommonValidations{{}, {Maximum: &f0}, {Minimum: &f1, ExclusiveMinimum: true}, {MaxLength: &i0, MinLength: &i3, Pattern: "^a"}, {Enum: []interface{}{"a", 1.0}}, {UniqueItems: true, MultipleOf: &f1}}
	for _, v := range vals {
		b, err := json.Marshal(v)
		if err != nil {
			t.Fatal(err)
		}
		var m map[string]json.RawMessage
		_ = json.Unmarshal(b, &m)
		// exactly the non-empty members, under their tag names
		want := map[string]bool{}
		rv := reflect.ValueOf(v)
		for i := 0; i < rv.NumField(); i++ {
			name := strings.Split(rv.Type().Field(i).Tag.Get("json"), ",")[0]
			if !rv.Field(i).IsZero() || (rv.Field(i).Kind() == reflect.Slice && rv.Field(i).Len() > 0) {
				if rv.Field(i).Kind() == reflect.Slice && rv.Field(i).Len() == 0 {
					continue
				}
				want[name] = true
			}
		}
		if len(m) != len(want) {
			t.Fatalf("members of %s: want %v", b, want)
		}
		for k := range want {
			if _, ok := m[k]; !ok {
				t.Fatalf("member %s missing in %s", k, b)
			}
		}
		// decode(encode(v)) == v, null members are no-ops, unknown members are ignored
		var back CommonValidations
		if err := json.Unmarshal(b, &back); err != nil || !reflect.DeepEqual(back, v) {
			t.Fatalf("decode(encode) differs for %s", b)
		}
		// a null member is a no-op for strings, numbers and booleans and sets pointers, slices, maps, interfaces to nil;
		// unknown members are ignored
		back2 := v
		want2 := v
		want2.Maximum = nil
		want2.Enum = nil
		if err := json.Unmarshal([]byte(`{"maximum":null,"pattern":null,"uniqueItems":null,"enum":null,"unknownMember":1}`), &back2); err != nil || !reflect.DeepEqual(back2, want2) {
			t.Fatalf("null / unknown members changed %+v into %+v", v, back2)
		}
	}
	// a member of the wrong JSON kind is an error; a non-object is an error
	var cv CommonValidations
	if json.Unmarshal([]byte(`{"pattern":5}`), &cv) == nil || json.Unmarshal([]byte(`[1]`), &cv) == nil || json.Unmarshal([]byte(`"s"`), &cv) == nil {
		t.Fatal("ill-typed input accepted")
	}
	// duplicate members: the last one wins
	_ = json.Unmarshal([]byte(`{"pattern":"a","pattern":"b"}`), &cv)
	if cv.Pattern != "b" {
		t.Fatal("duplicate member")
	}
	// strings are written as JSON string literals; map keys are sorted (text determinism)
	for _, s := range []string{"", "a", `a"b`, "a\\b", "a\nb", "é", "<&>"} {
		b, _ := json.Marshal(s)
		var back string
		if json.Unmarshal(b, &back) != nil || back != s || b[0] != '"' {
			t.Fatalf("string literal of %q: %s", s, b)
		}
	}
	b1, _ := json.Marshal(map[string]interface{}{"b": 1, "a": 2, "c": 3})
	if string(b1) != `{"a":2,"b":1,"c":3}` {
		t.Fatalf("map keys not sorted: %s", b1)
	}
	// first byte names the kind of a well-formed text without leading white space
	for txt, c := range map[string]byte{`{"a":1}`: '{', `[1]`: '[', `"s"`: '"', `null`: 'n', `true`: 't', `false`: 'f'} {
		if txt[0] != c {
			t.Fatal("first byte")
		}
	}
}

// Bound: the blob combinations below.
func TestVerifAxiomConcatJSON(t *testing.T) {
	cases := [][]string{{`{"a":1}`, `{"b":2}`}, {`{"a":1}`, `{}`, `{"a":2}`}, {`{}`, `{}`}, {`{"x":{"y":1}}`}, {"", `{"a":1}`}, {`{"a":1}`, ""}}
	for _, blobs := range cases {
		var bs [][]byte
		cnt := map[string]int{}
		for _, b := range blobs {
			if b == "" {
				bs = append(bs, nil)
				continue
			}
			bs = append(bs, []byte(b))
			var m map[string]json.RawMessage
			_ = json.Unmarshal([]byte(b), &m)
			for k := range m {
				cnt[k]++
			}
		}
		out := swag.ConcatJSON(bs...)
		dec := json.NewDecoder(bytes.NewReader(out))
		got := map[string]int{}
		if tok, err := dec.Token(); err != nil || tok != json.Delim('{') {
			t.Fatalf("ConcatJSON(%v) = %s", blobs, out)
		}
		for dec.More() {
			k, _ := dec.Token()
			var v json.RawMessage
			_ = dec.Decode(&v)
			got[k.(string)]++
		}
		if !reflect.DeepEqual(got, cnt) && !(len(got) == 0 && len(cnt) == 0) {
			t.Fatalf("members of ConcatJSON(%v) = %s: %v, want %v (duplicates are kept)", blobs, out, got, cnt)
		}
	}
}

// Bound: every JSON name of the four props structs plus unknown names.
func TestVerifAxiomGetForToken(t *testing.T) {
	f := 2.0
	docs := []interface{}{CommonValidations{Maximum: &f, Pattern: "p"}, SimpleSchema{Type: "string", Default: false}, InfoProps{Title: "t"}, TagProps{Name: "n"}}
	for _, d := range docs {
		rt := reflect.TypeOf(d)
		for i := 0; i < rt.NumField(); i++ {
			name := strings.Split(rt.Field(i).Tag.Get("json"), ",")[0]
			if name == "" || name == "-" {
				continue
			}
			r, _, err := jsonpointer.GetForToken(d, name)
			if err != nil || !reflect.DeepEqual(r, reflect.ValueOf(d).Field(i).Interface()) {
				t.Fatalf("GetForToken(%T, %q) = %v, %v", d, name, r, err)
			}
		}
		for _, unknown := range []string{"nope", "Title", "x-a", ""} {
			if unknown == "Title" && rt.Name() != "InfoProps" {
				continue
			}
			if unknown == "Title" {
				continue // Go names are not JSON names; swag may or may not know them: not part of the model
			}
			r, _, err := jsonpointer.GetForToken(d, unknown)
			if err == nil || r != nil || !strings.HasPrefix(err.Error(), "object has no field") {
				t.Fatalf("GetForToken(%T, %q) = %v, %v", d, unknown, r, err)
			}
		}
	}
	// an unset pointer member comes back as a typed nil, not as a nil interface
	r, _, err := jsonpointer.GetForToken(CommonValidations{}, "maximum")
	if err != nil || r == nil || !reflect.ValueOf(r).IsNil() {
		t.Fatalf("typed nil: %v %v", r, err)
	}
	// a pointer to a JSONPointable kind: nil is an error, otherwise the kind's own JSONLookup answers
	if r, _, err := jsonpointer.GetForToken((*Schema)(nil), "type"); err == nil || r != nil {
		t.Fatalf("nil *Schema: %v %v", r, err)
	}
	// a slice of a struct kind: an in-range index yields the element by value, anything else an error
	tuple := []Schema{{SchemaProps: SchemaProps{Title: "a"}}, {SchemaProps: SchemaProps{Title: "b"}}}
	for tok, want := range map[string]string{"0": "a", "1": "b"} {
		r, _, err := jsonpointer.GetForToken(tuple, tok)
		got, ok := r.(Schema)
		if err != nil || !ok || got.Title != want {
			t.Fatalf("GetForToken([]Schema, %q) = %v, %v", tok, r, err)
		}
	}
	for _, tok := range []string{"2", "-1", "x", ""} {
		if r, _, err := jsonpointer.GetForToken(tuple, tok); err == nil {
			t.Fatalf("GetForToken([]Schema, %q) = %v, nil error", tok, r)
		}
	}
	sch := &Schema{SchemaProps: SchemaProps{Title: "t"}, VendorExtensible: VendorExtensible{Extensions: Extensions{"x-a": 1}}, ExtraProps: map[string]interface{}{"k": "v"}}
	for _, tok := range []string{"title", "x-a", "k", "nope", "$ref"} {
		r1, _, e1 := jsonpointer.GetForToken(sch, tok)
		r2, e2 := sch.JSONLookup(tok)
		b1, _ := json.Marshal(r1)
		b2, _ := json.Marshal(r2)
		if (e1 == nil) != (e2 == nil) || string(b1) != string(b2) {
			t.Fatalf("GetForToken(*Schema, %q) = %s, %v; JSONLookup = %s, %v", tok, b1, e1, b2, e2)
		}
	}
}

type verifGobProbe struct {
	B    bool
	S    string
	P    *float64
	PS   *verifGobInner
	L    []string
	M    map[string]int
	I    interface{}
	LL   []map[string][]string
	hide int
}
type verifGobInner struct{ A string }

// Bound: the probe values below (gob field rules g1-g5).
func TestVerifAxiomGobRules(t *testing.T) {
	rt := func(in verifGobProbe) verifGobProbe {
		var buf bytes.Buffer
		if err := gob.NewEncoder(&buf).Encode(in); err != nil {
			t.Fatal(err)
		}
		var out verifGobProbe
		if err := gob.NewDecoder(&buf).Decode(&out); err != nil {
			t.Fatal(err)
		}
		return out
	}
	z, nz := 0.0, 2.5
	o := rt(verifGobProbe{B: true, S: "s", P: &nz, PS: &verifGobInner{}, L: []string{"a"}, M: map[string]int{"k": 0}, I: "str", hide: 7})
	if !o.B || o.S != "s" || o.P == nil || *o.P != 2.5 || o.PS == nil || len(o.L) != 1 || len(o.M) != 1 || o.I != "str" || o.hide != 0 {
		t.Fatalf("g1/g2: %+v", o)
	}
	o = rt(verifGobProbe{P: &z, L: []string{}, M: map[string]int{}})
	if o.P != nil || o.L != nil || o.M == nil || len(o.M) != 0 {
		t.Fatalf("g2/g3: a pointer to zero and an empty slice come back nil, an empty map comes back empty: %#v", o)
	}
	if o = rt(verifGobProbe{}); o.M != nil {
		t.Fatalf("g3: a nil map stays nil: %#v", o)
	}
	o = rt(verifGobProbe{LL: []map[string][]string{{"a": {}}, {}}})
	if len(o.LL) != 2 || o.LL[0]["a"] != nil || len(o.LL[0]) != 1 {
		t.Fatalf("g3: elements are sent, an empty slice element comes back nil: %+v", o)
	}
	o = rt(verifGobProbe{I: []interface{}{}})
	if o.I != nil {
		if s, ok := o.I.([]interface{}); !ok || s != nil && len(s) != 0 {
			t.Fatalf("g5: %+v", o)
		}
	}
	o = rt(verifGobProbe{I: map[string]interface{}{"x": []interface{}{}}})
	if m, ok := o.I.(map[string]interface{}); !ok || m["x"] != nil && len(m["x"].([]interface{})) != 0 {
		t.Fatalf("g5 nested: %+v", o)
	}
}
